"""Panic-obligation engine: every panic-capable operation in a set of functions is an obligation that must
be discharged, on every enumerated path that reaches it, by the decisions taken earlier on that path
(interval / symbolic guards on buffer lengths, Some-ness facts, bounded arithmetic) or by a single-symbol
allow entry with a reason. Nothing is executed; paths come from zrules.sym."""
from .sym import Sym, show, walk_expr, Interval, FLIP, PathExplosion, try_from_decision
from .common import short, strip_casts, END_ACCESSORS
from .facts import callee_name, fmt_span

READ_SIZES = {"get_u8": 1, "get_i8": 1, "get_u16": 2, "get_u16_le": 2, "get_i16": 2, "get_u32": 4, "get_u32_le": 4, "get_i32": 4,
              "get_u64": 8, "get_u64_le": 8, "get_i64": 8, "get_u128": 16, "get_f32": 4, "get_f64": 8}
CUT_N = {"advance", "split_to", "split_off"}
POP = {"pop_front", "pop_back", "pop", "first", "last", "next", "peek", "front", "back"}
UNWRAPS = {"unwrap", "expect", "unwrap_unchecked"}
PANICS = {"panic", "panic_fmt", "begin_panic", "panic_display", "panic_str", "panic_explicit", "unreachable_display",
          "assert_failed", "unwrap_failed", "expect_failed", "panic_nounwind", "panic_const_add_overflow"}
MAXLEN = (1 << 63) - 1


def is_site(t):
    """Static test: is this terminator a panic-capable operation?  -> kind or None"""
    if t["k"] == "assert":
        return "assert"
    if t["k"] != "call":
        return None
    fn = t["func"].get("fn")
    if not fn:
        return None
    n = fn["name"]
    full = callee_name(fn)
    if n in READ_SIZES and ("Buf" in full or "bytes::" in full):
        return "read"
    if n in CUT_N and ("bytes::" in full or "Buf" in full or "VecDeque" in full or "Vec" in full or "ZmqMessage" in full or "String" in full):
        return "cut"
    if n in ("index", "index_mut") and ("ops::Index" in full or "slice::index" in full or "Index" in (fn.get("trait") or "")):
        return "index"
    if n in UNWRAPS and ("Option" in full or "Result" in full):
        return "unwrap"
    if n in ("remove", "swap_remove", "insert", "drain", "split_at", "swap") and ("Vec" in full or "slice" in full or "VecDeque" in full or "String" in full) and "HashMap" not in full:
        return "vecidx"
    if n == "copy_from_slice" and "slice" in full and "bytes::Bytes" not in full:
        return "copylen"
    if n in PANICS or full.startswith("core::panicking::") or full.startswith("std::rt::begin_panic"):
        return "panic"
    return None


def inventory(body):
    out = []
    for bb in sorted(body.reachable(0)):
        t = body.term(bb)
        k = is_site(t)
        if k:
            nm = callee_name(t["func"]["fn"]) if t["k"] == "call" else "assert:" + t["msg"].split("(")[0].split(" ")[0]
            out.append({"fn": body.path, "bb": bb, "kind": k, "name": nm, "loc": fmt_span(body.blocks[bb]["tspan"]),
                        "span": body.blocks[bb]["tspan"]})
    return out


def norm_base(e):
    while isinstance(e, tuple) and e and e[0] in ("ref", "cast"):
        e = e[1]
    return e


def buffer_key(L):
    """(container expr, version) if L is a length view, else None."""
    L = strip_casts(L)
    if not isinstance(L, tuple) or not L:
        return None
    if L[0] == "pure" and short(L[1]) in ("len", "remaining") and len(L[2]) == 1:
        r = norm_base(L[2][0])
        if isinstance(r, tuple) and r and r[0] == "pure" and short(r[1]) in ("deref", "as_ref", "as_slice", "as_bytes", "borrow", "chunk") and r[2]:
            # `<[T]>::len(buf.deref())` (a `&[T]` parameter of a helper): the length of the same view PtrMetadata reads
            return (norm_base(r[2][0]), r[3][0] if r[3] else 0)
        return (r, L[3][0] if L[3] else 0)
    if L[0] == "unop" and L[1] == "PtrMetadata":
        x = L[2]
        while isinstance(x, tuple) and x and x[0] in ("ref", "cast"):
            x = x[1]
        if x[0] == "pure" and short(x[1]) in ("deref", "as_ref", "as_slice", "as_bytes", "borrow", "chunk") and x[2]:
            return (norm_base(x[2][0]), x[3][0] if x[3] else 0)
        return (norm_base(x), 0)
    return None


def view_key(x):
    """(container, version) for a slice view expression passed as receiver (deref(&buf) etc.)."""
    while isinstance(x, tuple) and x and x[0] in ("ref", "cast"):
        x = x[1]
    if isinstance(x, tuple) and x and x[0] == "pure" and short(x[1]) in ("deref", "as_ref", "as_slice", "as_bytes", "borrow", "chunk", "deref_mut", "as_mut") and x[2]:
        return (norm_base(x[2][0]), x[3][0] if x[3] else 0)
    return (norm_base(x), 0)


def position_base(x):
    """(container, version) whose indices a `X.iter().position(..)` / `rposition` result ranges over (Some(i) => i < len(X))"""
    x = strip_casts(x)
    if isinstance(x, tuple) and x and x[0] in ("call", "pure") and short(x[1]) in ("position", "rposition") and x[2]:
        it = x[2][0]
        while isinstance(it, tuple) and it and it[0] in ("ref", "cast"):
            it = it[1]
        if isinstance(it, tuple) and it and it[0] in ("call", "pure") and short(it[1]) in ("iter", "iter_mut") and it[2]:
            return view_key(it[2][0])
    return None


def same_buffer(k1, k2):
    return k1 is not None and k2 is not None and k1[1] == k2[1] and canon_text(k1[0]) == canon_text(k2[0])


class LenFacts:
    """What the decisions of a path prefix say about LEN(container@version)."""

    def __init__(self, conds, key):
        self.key = key
        self.iv = Interval(0, MAXLEN)
        self.sym = []     # (rel, expr): LEN rel expr   with rel in Ge, Gt, Le, Lt, Eq
        for (e, c, _, _) in conds:
            truth = None
            if c[0] == "eq":
                truth = bool(c[1])
            elif c == ("notin", (0,)):
                truth = True
            elif c == ("notin", (1,)):
                truth = False
            if truth is None:
                continue
            x = e
            while x[0] == "unop" and x[1] == "Not":
                truth = not truth
                x = x[2]
            tf = try_from_decision(e, c)
            if tf is not None and buffer_key(tf[0]) == key:
                self.iv.meet_cmp("Le" if tf[2] else "Gt", tf[1], True)
                continue
            if x[0] == "pure" and short(x[1]) == "is_empty" and len(x[2]) == 1:
                k = (norm_base(x[2][0]), x[3][0] if x[3] else 0)
                if k == key or view_key(x[2][0]) == key:
                    self.iv.meet_cmp("Eq", 0, truth)
                continue
            if e[0] == "discr" and e[1][0] in ("pure", "call") and short(e[1][1]) in END_ACCESSORS and len(e[1][2]) == 1 and \
                    c in (("eq", 0), ("eq", 1), ("notin", (0,))):
                # `match buf.first() { Some(..) => .., None => .. }`: Some exactly when LEN >= 1
                r = e[1]
                if view_key(r[2][0]) == key or (norm_base(r[2][0]), r[3][0] if (r[0] == "pure" and r[3]) else 0) == key:
                    self.iv.meet_cmp("Ge", 1, c != ("eq", 0))
                continue
            if x[0] == "pure" and short(x[1]) == "has_remaining" and len(x[2]) == 1:
                k = (norm_base(x[2][0]), x[3][0] if x[3] else 0)
                if k == key:
                    self.iv.meet_cmp("Ge", 1, truth)
                continue
            if x[0] != "binop" or x[1] not in FLIP:
                continue
            op, a, b = x[1], x[2], x[3]
            if buffer_key(a) == key:
                other = strip_casts(b)
            elif buffer_key(b) == key:
                other = strip_casts(a)
                op = FLIP[op]
            else:
                continue
            if other[0] == "int":
                self.iv.meet_cmp(op, other[1], truth)
            else:
                if not truth:
                    op = {"Gt": "Le", "Ge": "Lt", "Lt": "Ge", "Le": "Gt", "Eq": "Ne", "Ne": "Eq"}[op]
                self.sym.append((op, other))

    def ge_const(self, k):
        return self.iv.lo is not None and self.iv.lo >= k

    def ge_expr(self, n):
        n = strip_casts(n)
        if n[0] == "int":
            return self.ge_const(n[1])
        for (op, other) in self.sym:
            if other == n and op in ("Ge", "Gt", "Eq"):
                return True
        # the length itself; an index found by position() over this very buffer, or that with the length as fallback
        if same_buffer(buffer_key(n), self.key):
            return True
        if n[0] in ("call", "pure") and short(n[1]) == "unwrap_or" and len(n[2]) == 2:
            if same_buffer(position_base(n[2][0]), self.key) and self.ge_expr(n[2][1]):
                return True
        if n[0] == "field" and n[1][0] == "downcast" and n[1][2] == "Some" and same_buffer(position_base(n[1][1]), self.key):
            return True
        # n itself bounded above by a constant that LEN dominates
        ub = upper_bound(n)
        if ub is not None and self.ge_const(ub):
            return True
        return False

    def gt_expr(self, n):
        n = strip_casts(n)
        if n[0] == "int":
            return self.ge_const(n[1] + 1)
        for (op, other) in self.sym:
            if other == n and op == "Gt":
                return True
        return False


def upper_bound(e, conds=None):
    """Upper bound of an unsigned integer expression from its shape (no path facts): None = unknown."""
    e0 = e
    if not isinstance(e, tuple) or not e:
        return None
    if e[0] == "int":
        return e[1]
    if e[0] == "cast":
        inner = upper_bound(e[1])
        ty = e[2]
        cap = {"u8": 255, "u16": 65535, "u32": (1 << 32) - 1}.get(ty)
        if inner is not None and cap is not None:
            return min(inner, cap)
        # widening cast from a narrower read
        return inner if inner is not None else cap
    if e[0] in ("call", "pure"):
        n = short(e[1])
        if n in ("get_u8",):
            return 255
        if n in ("get_u16", "get_u16_le"):
            return 65535
        if n in ("get_u32", "get_u32_le"):
            return (1 << 32) - 1
        if n in ("len", "remaining", "count", "capacity"):
            return MAXLEN
        return None
    if e[0] == "unop" and e[1] == "PtrMetadata":
        return MAXLEN
    if e[0] == "discr":
        return 255
    if e[0] == "field":
        # Some(i) of position()/rposition(): an index into what is iterated, < its length
        if e[1][0] == "downcast" and e[1][2] == "Some" and e[1][1][0] in ("call", "pure") and short(e[1][1][1]) in ("position", "rposition"):
            return MAXLEN - 1
        # index of an Enumerate item: bounded by the length of what is enumerated
        for x in walk_expr(e):
            if isinstance(x, tuple) and x and x[0] in ("call", "pure") and short(x[1]) == "next" and "Enumerate" in x[1]:
                return MAXLEN - 1
        return None
    if e[0] == "binop":
        a, b = upper_bound(e[2]), upper_bound(e[3])
        if e[1] == "Add" and a is not None and b is not None:
            return a + b
        if e[1] == "Mul" and a is not None and b is not None:
            return a * b
        if e[1] in ("Sub", "Div", "Rem", "BitAnd", "Shr") and a is not None:
            return a
        if e[1] == "BitAnd" and b is not None:
            return b
    return None


def discr_bound(f, e):
    """max discriminant value of the enum whose discriminant e reads"""
    if e[0] == "discr" and len(e) > 2 and e[2]:
        ty = e[2].split("<")[0]
        for p, a in f.adts.items():
            if p.endswith("::" + ty.split("::")[-1]) and a["kind"] == "Enum":
                vals = [v["discr"] if v["discr"] is not None else i for i, v in enumerate(a["variants"])]
                return max(vals)
    return None


def ub_with_enums(f, e):
    e = e
    if not isinstance(e, tuple) or not e:
        return None
    if e[0] == "cast":
        return ub_with_enums(f, e[1])
    if e[0] == "discr":
        d = discr_bound(f, e)
        return d if d is not None else 255
    if e[0] == "binop" and e[1] in ("Add", "Mul"):
        a, b = ub_with_enums(f, e[2]), ub_with_enums(f, e[3])
        if a is None or b is None:
            return None
        return a + b if e[1] == "Add" else a * b
    return upper_bound(e)


def implied_ge(conds, a, b):
    """Do the path decisions contain a comparison of a and b that implies a >= b?"""
    a, b = strip_casts(a), strip_casts(b)
    for (e, c, _, _) in conds:
        truth = bool(c[1]) if c[0] == "eq" else (True if c == ("notin", (0,)) else (False if c == ("notin", (1,)) else None))
        if truth is None or e[0] != "binop" or e[1] not in FLIP:
            continue
        x, y = strip_casts(e[2]), strip_casts(e[3])
        op = e[1]
        if (x, y) == (b, a):
            op = FLIP[op]
        elif (x, y) != (a, b):
            continue
        # now op relates a ? b
        if not truth:
            op = {"Gt": "Le", "Ge": "Lt", "Lt": "Ge", "Le": "Gt", "Eq": "Ne", "Ne": "Eq"}[op]
        if op in ("Ge", "Gt", "Eq"):
            return True
    return False


def canon_text(e):
    """Text of a container expression with call ids erased and deref_mut == deref (same object, different borrow)."""
    if not isinstance(e, tuple) or not e:
        return str(e)
    if e[0] in ("call", "pure"):
        n = short(e[1])
        if n in ("deref", "deref_mut", "as_ref", "as_mut", "borrow", "borrow_mut"):
            return canon_text(e[2][0])
        return "%s(%s)" % (n, ",".join(canon_text(a) for a in e[2]))
    if e[0] in ("ref", "deref", "cast"):
        return canon_text(e[1])
    if e[0] == "field":
        return "%s.%s" % (canon_text(e[1]), e[2])
    if e[0] == "downcast":
        return "%s@%s" % (canon_text(e[1]), e[2])
    if e[0] == "havoc":
        return "obj:%s" % e[2]
    return show(e)


def place_str(e):
    """Place text (as used by store events) for simple place expressions rooted at an argument."""
    if e[0] == "ref":
        return place_str(e[1])
    if e[0] in ("call", "pure") and len(e) > 2 and len(e[2]) == 1 and short(e[1]) in ("as_mut", "as_ref") and "option::Option" in e[1]:
        return place_str(e[2][0])      # opt.as_mut() / opt.as_ref(): a view of the same place
    if e[0] == "arg":
        return "_%d" % e[1]
    if e[0] == "deref":
        b = place_str(e[1])
        return "(*%s)" % b if b else None
    if e[0] == "field":
        b = place_str(e[1])
        return "%s.%s" % (b, e[2]) if b else None
    if e[0] == "downcast":
        b = place_str(e[1])
        return "(%s as %s)" % (b, e[2]) if b else None
    return None


def is_some(f, p, ev_index, x):
    """Is option expression x provably Some at event index ev_index of path p?"""
    x0 = x
    if x[0] == "agg" and x[3] == "Some":
        return True, "constructed Some(..)"
    while x[0] in ("ref",):
        x = x[1]
    # result of pop/first/... on a container with LEN >= 1
    if x[0] in ("call", "pure") and short(x[1]) in POP and x[2]:
        src = None
        for i, ev in enumerate(p.events[:ev_index]):
            if ev.kind == "call" and ev.result == x:
                src = (i, ev)
        if src:
            i, ev = src
            for key in ((norm_base(ev.args[0]), ev.vers[0] if ev.vers else 0), view_key(ev.args[0])):
                # ZmqMessage::len / VecDeque::len / String::len on the same container
                lf = LenFacts(p.conds[:ev.ncond], key)
                if lf.ge_const(1):
                    return True, "len>=%s before %s" % (lf.iv.lo, short(ev.name))
        return False, "no guard LEN>=1 before %s" % short(x[1])
    # take()/replace() of a place known to be Some
    if x[0] == "call" and short(x[1]) in ("take",) and x[2]:
        a0 = x[2][0]
        while a0[0] == "ref":
            a0 = a0[1]
        if a0[0] == "agg" and a0[3] == "Some":
            return True, "the place holds a freshly stored Some(..)"
        ps = place_str(x[2][0])
        take_i = None
        for i, ev in enumerate(p.events[:ev_index]):
            if ev.kind == "call" and ev.result == x:
                take_i = i
        if ps is not None and take_i is not None:
            some = None
            tev = p.events[take_i]
            # decisions on discr(place) before the take
            for (e, c, _, _) in p.conds[:tev.ncond]:
                if e[0] == "discr" and place_str(e[1]) == ps:
                    if c == ("eq", 1):
                        some = "matched Some"
                    elif c == ("eq", 0):
                        some = None
            for ev in p.events[:take_i]:
                # a store to the same place: written here, or by a looked-through helper through a pointer to it
                if ev.kind == "store" and (ev.place == ps if (ev.target is None or ev.fnpath == tev.fnpath) else place_str(ev.target) == ps):
                    v = ev.value
                    some = "stored Some" if (v[0] == "agg" and v[3] == "Some") else None
                if ev.kind == "call" and short(ev.name) in ("take", "replace") and ev.args and place_str(ev.args[0]) == ps:
                    some = None
            if some:
                return True, some
        return False, "place not known to be Some before take()"
    # decided by a match on the same expression
    for (e, c, _, _) in p.conds:
        if e[0] == "discr" and e[1] == x and c == ("eq", 1):
            return True, "matched Some"
    return False, "not provably Some: %s" % show(x0)[:80]


def discharge(f, p, i, ev, kind):
    """-> (ok, reason)"""
    conds = p.conds[:ev.ncond] if ev.ncond is not None else p.conds
    n = short(ev.name) if ev.kind == "call" else None
    if kind == "read":
        key = (norm_base(ev.args[0]), ev.vers[0] if ev.vers else 0)
        lf = LenFacts(conds, key)
        k = READ_SIZES[n]
        return lf.ge_const(k), "remaining %s, need >= %d" % (lf.iv, k)
    if kind == "cut":
        key = (norm_base(ev.args[0]), ev.vers[0] if ev.vers else 0)
        lf = LenFacts(conds, key)
        ok = lf.ge_expr(ev.args[1])
        return ok, "need %s <= len; len facts: %s %s" % (show(ev.args[1])[:60], lf.iv, [(o, show(x)[:40]) for o, x in lf.sym])
    if kind == "index":
        recv, idx = ev.args[0], ev.args[1]
        key = view_key(recv)
        lf = LenFacts(conds, key)
        idx = idx
        while idx[0] == "ref":
            idx = idx[1]
        # a slice of a tail: `x[a..][..b]` needs a + b <= len(x) (the first step, `x[a..]`, is its own site)
        r0 = recv
        while isinstance(r0, tuple) and r0 and r0[0] in ("ref", "deref"):
            r0 = r0[1]
        if isinstance(r0, tuple) and r0 and r0[0] in ("call", "pure") and short(r0[1]) == "index" and len(r0[2]) == 2 and idx[0] == "agg" and \
                (idx[2] or "").endswith("RangeTo") and len(idx[4]) == 1:
            fr = r0[2][1]
            while fr[0] == "ref":
                fr = fr[1]
            if fr[0] == "agg" and (fr[2] or "").endswith("RangeFrom") and len(fr[4]) == 1 and strip_casts(fr[4][0])[0] == "int":
                a = strip_casts(fr[4][0])[1]
                b = strip_casts(idx[4][0])
                key0 = view_key(r0[2][0])
                lf0 = LenFacts(conds, key0)
                if b[0] == "int":
                    return lf0.ge_const(a + b[1]), "need %d + %d <= len %s" % (a, b[1], lf0.iv)
                # `x[a..][..x.len() - k]` with k >= a: a + len - k <= len (the subtraction is its own overflow site)
                if b[0] == "binop" and b[1] == "Sub" and strip_casts(b[3])[0] == "int" and strip_casts(b[3])[1] >= a and buffer_key(b[2]) == key0:
                    return True, "tail of length len-%d taken after skipping %d" % (strip_casts(b[3])[1], a)
        if idx[0] == "agg":
            rname = (idx[2] or "")
            ops = idx[4]
            if rname.endswith("RangeFull"):
                return True, "full range"
            if rname.endswith("RangeTo") and len(ops) == 1:
                return lf.ge_expr(ops[0]), "need end %s <= len %s" % (show(ops[0])[:40], lf.iv)
            if rname.endswith("RangeFrom") and len(ops) == 1:
                return lf.ge_expr(ops[0]), "need start %s <= len %s" % (show(ops[0])[:40], lf.iv)
            if rname.endswith("Range") and len(ops) == 2:
                a, b = strip_casts(ops[0]), strip_casts(ops[1])
                ordered = (a[0] == "int" and b[0] == "int" and a[1] <= b[1]) or (a[0] == "int" and a[1] == 0)
                return (lf.ge_expr(b) and ordered), "need %s..%s within len %s" % (show(a)[:30], show(b)[:30], lf.iv)
            if rname.endswith("RangeInclusive") or rname.endswith("RangeToInclusive"):
                return False, "inclusive range not modelled"
        if idx[0] == "const" and "RangeFull" in idx[1]:
            return True, "full range"
        if idx[0] == "const" and ".." in idx[1] and idx[1].replace("const ", "").strip() == "..":
            return True, "full range"
        if upper_bound(idx) is not None or idx[0] == "int":
            return lf.gt_expr(idx), "need %s < len %s" % (show(idx)[:40], lf.iv)
        return False, "index form not recognised: %s" % show(idx)[:80]
    if kind == "unwrap":
        if "Result" in ev.name:
            return False, "unwrap/expect on a Result turns an error value into a panic"
        return is_some(f, p, i, ev.args[0])
    if kind == "vecidx":
        if n in ("remove", "swap_remove"):
            idx = strip_casts(ev.args[1])
            # index produced by position() over the same vector, unwrapped under its Some arm
            for x in walk_expr(idx):
                if isinstance(x, tuple) and x and x[0] in ("call", "pure") and short(x[1]) in ("position", "rposition"):
                    base = None
                    for y in walk_expr(x):
                        if isinstance(y, tuple) and y and y[0] in ("call", "pure") and short(y[1]) in ("iter", "iter_mut"):
                            base = view_key(y[2][0])
                    rk = view_key(ev.args[0])
                    if base is not None and canon_text(base[0]) == canon_text(rk[0]):
                        return True, "index from position() over the same vector"
                    return False, "position() over a different container (%s vs %s)" % (show(base[0])[:40] if base else None, show(rk[0])[:40])
            key = view_key(ev.args[0])
            lf = LenFacts(conds, key)
            return lf.gt_expr(idx), "need index < len"
        return False, "%s not modelled" % n
    if kind == "copylen":
        return False, "copy_from_slice length equality not modelled"
    if kind == "panic":
        return False, "explicit panic reachable"
    if kind == "assert":
        msg = ev.term["msg"]
        c = ev.value
        if msg.startswith("BoundsCheck"):
            # cond: Lt(idx, len)
            if c[0] == "int":
                return bool(c[1]) == ev.term["expected"], "constant"
            if c[0] == "binop" and c[1] == "Lt":
                idx, L = strip_casts(c[2]), c[3]
                if L[0] == "int":
                    ub = ub_with_enums(f, idx)
                    return (ub is not None and ub < L[1]), "index <= %s, array length %d" % (ub, L[1])
                key = buffer_key(L)
                if key is None:
                    return False, "length operand not recognised: %s" % show(L)[:60]
                lf = LenFacts(conds, key)
                return lf.gt_expr(idx), "need %s < len %s" % (show(idx)[:30], lf.iv)
            return False, "bounds check form not recognised"
        if msg.startswith("Overflow"):
            # value is the overflow flag expression: ("binop","OverflowAdd",a,b) or int
            if c[0] == "int":
                return c[1] == 0, "constant"
            if c[0] == "binop" and c[1].startswith("Overflow"):
                op = c[1][len("Overflow"):]
                a, b = ub_with_enums(f, c[2]), ub_with_enums(f, c[3])
                if op in ("Add", "Mul") and a is not None and b is not None:
                    tot = a + b if op == "Add" else a * b
                    return tot < (1 << 64), "%s of values <= %s and <= %s cannot exceed usize" % (op, a, b)
                if op == "Sub":
                    # a - b: need a >= b by a guard
                    if implied_ge(conds, c[2], c[3]):
                        return True, "guard implies %s >= %s" % (show(c[2])[:30], show(c[3])[:30])
                    key = buffer_key(c[2])
                    if key is not None:
                        lf = LenFacts(conds, key)
                        return lf.ge_expr(c[3]), "need %s >= %s" % (show(c[2])[:30], show(c[3])[:30])
                    return False, "subtraction underflow not guarded"
            return False, "overflow form not recognised: %s" % show(c)[:60]
        if msg.startswith("DivisionByZero") or msg.startswith("RemainderByZero"):
            return False, "division by a possibly-zero value"
        return False, "assert kind not modelled: %s" % msg[:40]
    return False, "unknown kind"


def evaluate(f, body, paths, allow=None, extra_sites=None, extra_discharge=None):
    """Evaluate every obligation site of `body` over `paths`. -> list of dict(site, ok, reason, npaths)"""
    allow = allow or {}
    sites = {(s["fn"], s["bb"]): s for s in inventory(body)}
    res = {k: {"site": s, "paths": 0, "fail": None, "reasons": set()} for k, s in sites.items()}
    foreign_done = set()
    for p in paths:
        for i, ev in enumerate(p.events):
            k = (ev.fnpath, ev.bb)
            if k not in res and ev.fnpath != body.path and ev.fnpath not in foreign_done:
                # sites inside a helper that was looked through: evaluated in this caller's context
                foreign_done.add(ev.fnpath)
                fb = f.body(ev.fnpath)
                if fb is not None:
                    for s in inventory(fb):
                        res[(s["fn"], s["bb"])] = {"site": s, "paths": 0, "fail": None, "reasons": set(), "foreign": True}
            if k not in res:
                continue
            if ev.kind not in ("call", "assert"):
                continue
            if ev.kind == "call" and ev.extra == "inlined":
                continue
            s = res[k]["site"]
            if (s["kind"] == "assert") != (ev.kind == "assert"):
                continue
            ok, why = discharge(f, p, i, ev, s["kind"])
            if not ok and extra_discharge is not None:
                alt = extra_discharge(f, p, i, ev, s)
                if alt is not None:
                    ok, why = alt
            res[k]["paths"] += 1
            if ok:
                res[k]["reasons"].add(why)
            elif res[k]["fail"] is None:
                res[k]["fail"] = (why, [show(e)[:70] + ("=" + str(c)) for e, c, _, _ in p.conds[:ev.ncond if ev.ncond is not None else None]][-6:])
    return res
