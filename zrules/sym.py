"""Path-sensitive abstract evaluation of built MIR (no solver, no execution).

`paths(body)` enumerates the control-flow paths of a body (each block at most
`max_visits` times per path, unwind edges ignored) and evaluates every local
and every stored place to an *expression tree* over the function's arguments,
constants and call results. Branches whose condition is a constant, or that
contradict an earlier decision on a structurally identical condition, are
pruned (correlated-condition pruning). Each path yields its decisions, its
events (calls, stores, asserts, yields, drops) and its return expression.

Expressions (tuples):
  ("int", v) ("const", text, ty) ("fn", path) ("arg", i) ("unk", tag)
  ("ref", e) ("deref", e) ("field", e, name, ty) ("downcast", e, variant)
  ("index", e, i) ("cindex", e, off, from_end)
  ("cast", e, ty) ("binop", op, a, b) ("unop", op, a) ("discr", e)
  ("agg", kind, adt, variant, (ops...))
  ("call", name, (args...), uid)     result of an effectful / unknown call
  ("pure", name, (args...), vers)    result of a listed read-only accessor
"""
from .facts import callee_name, fmt_place

PURE_NAMES = {
    "len", "is_empty", "remaining", "as_ref", "deref", "as_bytes", "as_str", "as_slice", "first", "last", "get",
    "iter", "clone", "into", "from", "eq", "ne", "lt", "le", "gt", "ge", "cmp", "partial_cmp", "is_some", "is_none",
    "is_ok", "is_err", "socket_type", "compatible", "has_remaining", "to_owned", "to_string", "to_vec", "borrow",
    "as_mut", "as_deref", "contains_key", "contains", "starts_with", "ends_with", "kind", "waker", "key", "peek",
    "socket_options", "monitor", "version", "chunk", "index", "capacity", "into_iter", "enumerate", "rev", "copied",
    "cloned", "as_pathname", "ip", "port", "local_addr", "peer_addr", "into_future", "new_unchecked", "fuse", "branch",
    "from_residual", "from_output", "as_str", "to_bytes", "default",
}
# pure names that nevertheless produce a fresh/unique value each time
FRESH = {"default"}


class PathExplosion(Exception):
    pass


class Event:
    __slots__ = ("kind", "bb", "name", "fn", "args", "result", "place", "value", "extra", "fnpath", "term", "vers", "ncond")

    def __init__(self, kind, bb, fnpath, **kw):
        self.kind = kind
        self.bb = bb
        self.fnpath = fnpath
        self.name = kw.get("name")
        self.fn = kw.get("fn")
        self.args = kw.get("args")
        self.result = kw.get("result")
        self.place = kw.get("place")
        self.value = kw.get("value")
        self.extra = kw.get("extra")
        self.term = kw.get("term")
        self.vers = kw.get("vers")
        self.ncond = kw.get("ncond")

    def __repr__(self):
        if self.kind == "call":
            return "call %s@bb%d" % (self.name, self.bb)
        if self.kind == "store":
            return "store %s@bb%d" % (self.place, self.bb)
        return "%s@bb%d" % (self.kind, self.bb)


class Path:
    def __init__(self):
        self.conds = []     # (expr, ("eq", v) | ("notin", (v...)), bb, fnpath)
        self.events = []
        self.blocks = []
        self.end = None     # "return" | "diverge" | "unreachable" | "resume" | "cut"
        self.ret = None
        self.env = None
        self.cut_at = None

    def calls(self, pred=None):
        return [e for e in self.events if e.kind == "call" and (pred is None or pred(e))]


class State:
    def __init__(self, body):
        self.env = {}        # key (str of place) -> expr
        self.pts = {}        # local -> place json it points to (from Rvalue::Ref)
        self.ver = {}        # pointer expr -> version id
        self.visits = {}
        self.conds = []
        self.events = []
        self.blocks = []

    def clone(self):
        s = State.__new__(State)
        s.env = dict(self.env)
        s.pts = dict(self.pts)
        s.ver = dict(self.ver)
        s.visits = dict(self.visits)
        s.conds = list(self.conds)
        s.events = list(self.events)
        s.blocks = list(self.blocks)
        return s


def pkey(place, upto=None):
    proj = place["p"] if upto is None else place["p"][:upto]
    return fmt_place({"l": place["l"], "p": proj})


class Sym:
    def __init__(self, facts, max_visits=2, max_paths=20000, inline=None, inline_depth=2, pure=None,
                 stop_blocks=None, stop_calls=None, cut_at_yield=False):
        self.facts = facts
        self.stop_blocks = set(stop_blocks or ())     # (fnpath, bb): finish the path when entered a 2nd time
        self.stop_calls = stop_calls or (lambda fn: False)   # finish the path at such a call (e.g. self-recursion)
        self.cut_at_yield = cut_at_yield
        self.max_visits = max_visits
        self.max_paths = max_paths
        self.inline = inline or (lambda fn: False)
        self.inline_depth = inline_depth
        self.uid = 0
        self.pure = pure or PURE_NAMES

    # ------------------------------------------------------------ evaluation
    def read_place(self, st, place):
        n = len(place["p"])
        # longest prefix with a binding
        for k in range(n, -1, -1):
            key = pkey(place, k)
            if key in st.env:
                e = st.env[key]
                return self.apply_proj(st, e, place["p"][k:])
        l = place["l"]
        return self.apply_proj(st, ("unk", "_%d" % l), place["p"])

    def apply_proj(self, st, e, proj):
        for el in proj:
            k = el["k"]
            if k == "deref":
                if e[0] == "ref":
                    e = e[1]
                else:
                    e = ("deref", e)
            elif k == "field":
                if e[0] == "agg" and e[1] in ("tuple", "adt", "closure", "coroutine") and el["i"] < len(e[4]):
                    e = e[4][el["i"]]
                else:
                    e = ("field", e, el.get("name") if el.get("name") is not None else el["i"], el["ty"])
            elif k == "downcast":
                if e[0] == "agg" and e[1] == "adt" and e[3] == el.get("name"):
                    pass          # downcast of a known variant is transparent
                else:
                    e = ("downcast", e, el.get("name") if el.get("name") is not None else el["v"])
            elif k == "index":
                e = ("index", e, st.env.get("_%d" % el["l"], ("unk", "_%d" % el["l"])))
            elif k == "cindex":
                e = ("cindex", e, el["off"], el["from_end"])
            else:
                e = ("proj", e, k)
        return e

    def operand(self, st, o):
        if o["k"] == "const":
            if "int" in o:
                return ("int", o["int"])
            if "fn" in o:
                return ("fn", callee_name(o["fn"]))
            if "static" in o:
                return ("const", "static " + o["static"], o["ty"])
            return ("const", o["val"], o["ty"])
        if o["k"] in ("copy", "move"):
            return self.read_place(st, o["place"])
        return ("unk", "operand")

    def rvalue(self, st, rv):
        k = rv["k"]
        if k == "use":
            return self.operand(st, rv["op"])
        if k == "copy_for_deref":
            return self.read_place(st, rv["place"])
        if k in ("ref", "rawptr"):
            e = self.read_place(st, rv["place"])
            if e[0] == "deref":
                return e[1]       # reborrow: same pointer
            return ("ref", e)
        if k == "cast":
            a = self.operand(st, rv["op"])
            if a[0] == "int" and rv["ck"].startswith("IntToInt"):
                return a if not rv["ty"].startswith("u8") else ("int", a[1] & 0xFF)
            return ("cast", a, rv["ty"])
        if k == "binop":
            a = self.operand(st, rv["a"])
            b = self.operand(st, rv["b"])
            return fold_binop(rv["op"], a, b)
        if k == "unop":
            a = self.operand(st, rv["a"])
            if rv["op"] == "Not" and a[0] == "int" and a[1] in (0, 1):
                return ("int", 1 - a[1])
            return ("unop", rv["op"], a)
        if k == "discriminant":
            e = self.read_place(st, rv["place"])
            if e[0] == "agg" and e[1] == "adt":
                d = self._variant_discr(e[2], e[3])
                if d is not None:
                    return ("int", d)
                return ("variant", e[2], e[3])
            return ("discr", e, rv["place"].get("ty"))
        if k == "aggregate":
            return ("agg", rv["ak"], rv.get("adt") or rv.get("def"), rv.get("variant_name"),
                    tuple(self.operand(st, o) for o in rv["ops"]))
        if k == "repeat":
            return ("repeat", self.operand(st, rv["op"]), rv["count"])
        return ("unk", "rv:" + k)

    def assign(self, st, place, e, rv=None):
        key = pkey(place)
        # kill longer keys
        pre = key
        for k in [k for k in st.env if k != key and k.startswith(pre) and k[len(pre):len(pre) + 1] in (".", "[", ")", " ")]:
            del st.env[k]
        # keys that wrap this place syntactically, e.g. "(*_1).f" when assigning "_1"
        if not place["p"]:
            tag = "_%d" % place["l"]
            for k in list(st.env):
                if k != key and _mentions(k, tag):
                    del st.env[k]
            st.pts.pop(place["l"], None)
            if rv is not None and rv["k"] == "ref":
                st.pts[place["l"]] = (rv["place"], rv["bk"])
            elif rv is not None and rv["k"] == "use" and rv["op"]["k"] in ("copy", "move") and not rv["op"]["place"]["p"]:
                src = rv["op"]["place"]["l"]
                if src in st.pts:
                    st.pts[place["l"]] = st.pts[src]
        st.env[key] = e

    def havoc_arg(self, st, o, uid):
        """A call received `o`; if it is a mutable reference, whatever it points to may change."""
        if o["k"] not in ("copy", "move"):
            return
        pl = o["place"]
        ty = pl.get("ty", "")
        if not (ty.startswith("&mut") or ty.startswith("std::pin::Pin<&mut")):
            return
        ptr = self.read_place(st, pl)
        st.ver[ptr] = uid
        if not pl["p"] and pl["l"] in st.pts:
            tgt, bk = st.pts[pl["l"]]
            key = pkey(tgt)
            old = st.env.get(key)
            if old is None:
                old = self.read_place(st, tgt)
            for k in [k for k in st.env if k == key or (k.startswith(key) and k[len(key):len(key) + 1] in (".", "[", ")"))]:
                del st.env[k]
            if not any(el["k"] == "deref" for el in tgt["p"]):
                st.env[key] = ("havoc", uid, key, old)
            else:
                # pointee of some pointer: bump that pointer's version as well
                for i, el in enumerate(tgt["p"]):
                    if el["k"] == "deref":
                        base = self.read_place(st, {"l": tgt["l"], "p": tgt["p"][:i]})
                        st.ver[base] = uid

    # ------------------------------------------------------------ driver
    def paths(self, body, args=None, depth=0, st0=None, seed=None):
        out = []
        st = st0.clone() if st0 is not None else State(body)
        if st0 is None:
            for i in range(1, body.j["arg_count"] + 1):
                st.env["_%d" % i] = args[i - 1] if args else ("arg", i)
            for k, v in (seed or {}).items():
                st.env[k] = v
        self._walk(body, 0, st, out, depth)
        return out

    def _finish(self, st, end, ret, out):
        p = Path()
        p.conds = st.conds
        p.events = st.events
        p.blocks = st.blocks
        p.end = end
        p.ret = ret
        p.env = st.env
        p.state = st
        out.append(p)
        if len(out) > self.max_paths:
            raise PathExplosion("more than %d paths" % self.max_paths)

    def _walk(self, body, bb, st, out, depth):
        fnpath = body.path
        while True:
            v = st.visits.get((fnpath, bb), 0)
            if v >= 1 and (fnpath, bb) in self.stop_blocks:
                self._finish(st, "stop", None, out)
                return
            if v >= self.max_visits:
                self._finish(st, "cut", None, out)
                out[-1].cut_at = (fnpath, bb)
                return
            st.visits[(fnpath, bb)] = v + 1
            st.blocks.append((fnpath, bb))
            blk = body.blocks[bb]
            for s in blk["stmts"]:
                if s["k"] == "assign":
                    e = self.rvalue(st, s["rv"])
                    if s["place"]["p"]:
                        idx = tuple(st.env.get("_%d" % el["l"], ("unk", "_%d" % el["l"])) for el in s["place"]["p"] if el["k"] == "index")
                        st.events.append(Event("store", bb, fnpath, place=pkey(s["place"]), value=e, extra=s, args=idx))
                    self.assign(st, s["place"], e, s["rv"])
                elif s["k"] == "set_discr":
                    st.events.append(Event("store", bb, fnpath, place=pkey(s["place"]) + "#discr", value=("int", s["v"]), extra=s))
            t = blk["term"]
            k = t["k"]
            if k == "goto" or k == "false_edge" or k == "false_unwind":
                bb = t["t"]
                continue
            if k == "return":
                self._finish(st, "return", st.env.get("_0", ("unk", "_0")), out)
                return
            if k in ("unreachable", "resume", "terminate", "coroutine_drop"):
                self._finish(st, k, None, out)
                return
            if k == "assert":
                c = self.operand(st, t["cond"])
                st.events.append(Event("assert", bb, fnpath, value=c, extra=t, ncond=len(st.conds), term=t,
                                       vers=dict(st.ver)))
                bb = t["t"]
                continue
            if k == "drop":
                st.events.append(Event("drop", bb, fnpath, place=pkey(t["place"]), value=self.read_place(st, t["place"]),
                                       extra=t["place"].get("ty")))
                bb = t["t"]
                continue
            if k == "yield":
                st.events.append(Event("yield", bb, fnpath, value=self.operand(st, t["value"]), term=t))
                if self.cut_at_yield:
                    self._finish(st, "yield", None, out)
                    return
                self.uid += 1
                self.assign(st, t["resume_arg"], ("resume", self.uid))
                bb = t["resume"]
                continue
            if k == "switch":
                e = self.operand(st, t["op"])
                choices = []
                tvals = [v for v, _ in t["targets"]]
                if e[0] == "int":
                    tgt = t["otherwise"]
                    for v, b in t["targets"]:
                        if v == e[1]:
                            tgt = b
                    bb = tgt
                    continue
                if e[0] == "variant":
                    # discriminant of a freshly built aggregate: resolve through the ADT table
                    idx = self._variant_discr(e[1], e[2])
                    if idx is not None:
                        tgt = t["otherwise"]
                        for v, b in t["targets"]:
                            if v == idx:
                                tgt = b
                        bb = tgt
                        continue
                for v, b in t["targets"]:
                    if consistent(st.conds, e, ("eq", v)):
                        choices.append((("eq", v), b))
                oth = ("notin", tuple(tvals))
                if e[0] == "discr" and len(tvals) == 1 and tvals[0] in (0, 1) and self._two_variants(e[2] if len(e) > 2 else None):
                    oth = ("eq", 1 - tvals[0])       # the only other variant of a two-variant enum
                if consistent(st.conds, e, oth):
                    choices.append((oth, t["otherwise"]))
                # an `otherwise` that is an unreachable block is not a real choice
                choices = [(c, b) for c, b in choices if not (body.blocks[b]["term"]["k"] == "unreachable" and not body.blocks[b]["stmts"])]
                if not choices:
                    self._finish(st, "infeasible", None, out)
                    return
                for i, (c, b) in enumerate(choices):
                    s2 = st if i == len(choices) - 1 else st.clone()
                    s2.conds.append((e, c, bb, fnpath))
                    self._walk(body, b, s2, out, depth)
                return
            if k == "call":
                fn = t["func"].get("fn")
                name = callee_name(fn) if fn else "?indirect"
                args = tuple(self.operand(st, a) for a in t["args"])
                self.uid += 1
                uid = self.uid
                short = fn["name"] if fn else "?"
                if fn and self.stop_calls(fn):
                    st.events.append(Event("call", bb, fnpath, name=name, fn=fn, args=args, result=None, term=t, extra="stop"))
                    self._finish(st, "stop", None, out)
                    return
                callee_body = None
                if fn and depth < self.inline_depth and self.inline(fn):
                    callee_body = self.facts.body(callee_name(fn)) or self.facts.body(fn["path"])
                if callee_body is not None and not callee_body.j.get("coroutine_kind"):
                    # virtual inlining: run the callee's paths in place
                    sub_out = []
                    st.events.append(Event("call", bb, fnpath, name=name, fn=fn, args=args, result=None, term=t, extra="inlined"))
                    cst = st.clone()
                    cst.env = {}
                    cst.pts = {}
                    for key in [k for k in cst.visits if k[0] == callee_body.path]:
                        del cst.visits[key]
                    for i in range(1, callee_body.j["arg_count"] + 1):
                        cst.env["_%d" % i] = args[i - 1] if i - 1 < len(args) else ("unk", "arg")
                    self._walk(callee_body, 0, cst, sub_out, depth + 1)
                    for p in sub_out:
                        if p.end != "return" or t["t"] is None:
                            out.append(p)
                            continue
                        s2 = st.clone()
                        s2.ver = dict(p.state.ver)
                        s2.visits = dict(p.state.visits)
                        s2.conds = list(p.conds)
                        s2.events = list(p.events)
                        s2.blocks = list(p.blocks)
                        for a_ in t["args"]:
                            self.havoc_arg(s2, a_, uid)
                        self.assign(s2, t["dest"], p.ret)
                        self._walk(body, t["t"], s2, out, depth)
                    return
                is_pure = short in self.pure and not any(
                    (a["k"] in ("copy", "move") and (a["place"].get("ty", "").startswith("&mut")))
                    for a in t["args"])
                folded = fold_pure(short, args) if is_pure else None
                if folded is not None:
                    res = folded
                elif is_pure and short not in FRESH:
                    vers = tuple(st.ver.get(a, 0) for a in args)
                    res = ("pure", name, args, vers)
                else:
                    res = ("call", name, args, uid)
                st.events.append(Event("call", bb, fnpath, name=name, fn=fn, args=args, result=res, term=t,
                                       vers=tuple(st.ver.get(a, 0) for a in args), ncond=len(st.conds)))
                if not is_pure:
                    for a in t["args"]:
                        self.havoc_arg(st, a, uid)
                if t["t"] is None:
                    self._finish(st, "diverge", None, out)
                    return
                self.assign(st, t["dest"], res)
                bb = t["t"]
                continue
            # unknown terminator
            self._finish(st, "other:" + k, None, out)
            return

    def _two_variants(self, ty):
        if not ty:
            return False
        base = ty.split("<")[0]
        if base in ("std::option::Option", "std::result::Result", "std::task::Poll", "std::ops::ControlFlow", "core::option::Option",
                    "core::result::Result", "core::task::Poll", "core::ops::ControlFlow"):
            return True
        for p_, a in self.facts.adts.items():
            if a["kind"] == "Enum" and (p_ == base or p_.endswith("::" + base.split("::")[-1])) and len(a["variants"]) == 2:
                ds = [v["discr"] if v["discr"] is not None else i for i, v in enumerate(a["variants"])]
                return sorted(ds) == [0, 1]
        return False

    def _variant_discr(self, adt, vname):
        a = self.facts.adts.get(adt)
        if not a:
            # std enums: Option / Result / ControlFlow / Poll
            table = {"None": 0, "Some": 1, "Ok": 0, "Err": 1, "Continue": 0, "Break": 1, "Ready": 0, "Pending": 1}
            return table.get(vname)
        for i, v in enumerate(a["variants"]):
            if v["name"] == vname:
                return v["discr"] if v["discr"] is not None else i
        return None


def fold_pure(short, args):
    """Known results of pure std adaptors on freshly built aggregates (keeps infeasible `?` edges out)."""
    if not args:
        return None
    a = args[0]
    while a[0] == "ref":
        a = a[1]
    if a[0] != "agg" or a[1] != "adt":
        return None
    v = a[3]
    if short == "branch":
        if v in ("Ok", "Some"):
            return ("agg", "adt", "core::ops::ControlFlow", "Continue", a[4])
        if v in ("Err", "None"):
            return ("agg", "adt", "core::ops::ControlFlow", "Break", (a,))
    if short in ("is_some", "is_ok") and v in ("Some", "Ok", "None", "Err"):
        return ("int", int(v in ("Some", "Ok")))
    if short in ("is_none", "is_err") and v in ("Some", "Ok", "None", "Err"):
        return ("int", int(v in ("None", "Err")))
    return None


def _mentions(key, tag):
    i = key.find(tag)
    while i >= 0:
        j = i + len(tag)
        if (j >= len(key) or not key[j].isdigit()) and (i == 0 or not key[i - 1].isalnum()):
            return True
        i = key.find(tag, j)
    return False


def fold_binop(op, a, b):
    base = op.replace("WithOverflow", "").replace("Unchecked", "")
    if a[0] == "int" and b[0] == "int":
        x, y = a[1], b[1]
        r = None
        if base == "Add":
            r = x + y
        elif base == "Sub":
            r = x - y
        elif base == "Mul":
            r = x * y
        elif base == "BitOr":
            r = x | y
        elif base == "BitAnd":
            r = x & y
        elif base == "BitXor":
            r = x ^ y
        elif base == "Shl":
            r = x << y
        elif base == "Shr":
            r = x >> y
        elif base == "Eq":
            r = int(x == y)
        elif base == "Ne":
            r = int(x != y)
        elif base == "Lt":
            r = int(x < y)
        elif base == "Le":
            r = int(x <= y)
        elif base == "Gt":
            r = int(x > y)
        elif base == "Ge":
            r = int(x >= y)
        if r is not None:
            if "WithOverflow" in op:
                return ("agg", "tuple", None, None, (("int", r), ("int", 0)))
            return ("int", r)
    if "WithOverflow" in op:
        return ("agg", "tuple", None, None, (("binop", base, a, b), ("binop", "Overflow" + base, a, b)))
    return ("binop", base, a, b)


def consistent(conds, e, c):
    """Is decision `c` on expression `e` compatible with the earlier decisions on the same expression?"""
    for (e2, c2, _, _) in conds:
        if e2 != e:
            # negation pair: Not(x) vs x
            continue
        if c2[0] == "eq" and c[0] == "eq" and c2[1] != c[1]:
            return False
        if c2[0] == "eq" and c[0] == "notin" and c2[1] in c[1]:
            return False
        if c2[0] == "notin" and c[0] == "eq" and c[1] in c2[1]:
            return False
    return True


# ------------------------------------------------------------------ helpers for rules
def walk_expr(e):
    """Pre-order iteration over sub-expressions."""
    st = [e]
    while st:
        x = st.pop()
        yield x
        if isinstance(x, tuple):
            for y in x[1:]:
                if isinstance(y, tuple):
                    if y and isinstance(y[0], str):
                        st.append(y)
                    else:
                        for z in y:
                            if isinstance(z, tuple):
                                st.append(z)


def mentions(e, sub):
    return any(x == sub for x in walk_expr(e))


def show(e, depth=0):
    if not isinstance(e, tuple) or not e:
        return str(e)
    k = e[0]
    if k == "int":
        return str(e[1])
    if k == "const":
        return e[1]
    if k == "arg":
        return "arg%d" % e[1]
    if k == "unk":
        return "?" + str(e[1])
    if k == "ref":
        return "&" + show(e[1])
    if k == "deref":
        return "*" + show(e[1])
    if k == "field":
        return "%s.%s" % (show(e[1]), e[2])
    if k == "downcast":
        return "(%s as %s)" % (show(e[1]), e[2])
    if k == "cast":
        return "(%s as %s)" % (show(e[1]), e[2])
    if k == "binop":
        return "%s(%s, %s)" % (e[1], show(e[2]), show(e[3]))
    if k == "unop":
        return "%s(%s)" % (e[1], show(e[2]))
    if k == "discr":
        return "discr(%s)" % show(e[1])
    if k in ("call", "pure"):
        nm = e[1].split("::")[-1] if not e[1].startswith("<") else e[1]
        return "%s(%s)%s" % (nm, ", ".join(show(a) for a in e[2]), ("#%s" % e[3]) if k == "call" else "")
    if k == "agg":
        return "%s%s(%s)" % (e[2] or e[1], ("::" + e[3]) if e[3] else "", ", ".join(show(a) for a in e[4]))
    if k == "cindex":
        return "%s[%s%d]" % (show(e[1]), "-" if e[3] else "", e[2])
    if k == "index":
        return "%s[%s]" % (show(e[1]), show(e[2]))
    return str(e)


class Interval:
    """Closed integer interval with None = unbounded; built from path decisions on one expression."""

    def __init__(self, lo=None, hi=None):
        self.lo = lo
        self.hi = hi
        self.excluded = set()

    def meet_cmp(self, op, c, truth):
        # constraint: (x op c) == truth
        neg = {"Gt": "Le", "Ge": "Lt", "Lt": "Ge", "Le": "Gt", "Eq": "Ne", "Ne": "Eq"}
        if not truth:
            op = neg[op]
        if op == "Gt":
            self.lo = c + 1 if self.lo is None else max(self.lo, c + 1)
        elif op == "Ge":
            self.lo = c if self.lo is None else max(self.lo, c)
        elif op == "Lt":
            self.hi = c - 1 if self.hi is None else min(self.hi, c - 1)
        elif op == "Le":
            self.hi = c if self.hi is None else min(self.hi, c)
        elif op == "Eq":
            self.lo = c if self.lo is None else max(self.lo, c)
            self.hi = c if self.hi is None else min(self.hi, c)
        elif op == "Ne":
            self.excluded.add(c)
            while self.lo is not None and self.lo in self.excluded:
                self.lo += 1
            while self.hi is not None and self.hi in self.excluded:
                self.hi -= 1

    def empty(self):
        return self.lo is not None and self.hi is not None and self.lo > self.hi

    def within(self, lo, hi):
        if lo is not None and (self.lo is None or self.lo < lo):
            return False
        if hi is not None and (self.hi is None or self.hi > hi):
            return False
        return True

    def __repr__(self):
        return "[%s, %s]" % ("-inf" if self.lo is None else self.lo, "+inf" if self.hi is None else self.hi)


FLIP = {"Gt": "Lt", "Ge": "Le", "Lt": "Gt", "Le": "Ge", "Eq": "Eq", "Ne": "Ne"}


def interval_of(conds, x, lo=0, hi=None, upto_block=None):
    """Interval for expression x implied by the path decisions (comparisons of x with integer constants)."""
    iv = Interval(lo, hi)
    for (e, c, bb, fnp) in conds:
        if e[0] != "binop" or e[1] not in FLIP:
            continue
        op, a, b = e[1], e[2], e[3]
        if a == x and b[0] == "int":
            k = b[1]
        elif b == x and a[0] == "int":
            op = FLIP[op]
            k = a[1]
        else:
            continue
        if c[0] == "eq":
            truth = bool(c[1])
        else:
            # notin (0,) => true ; notin (1,) => false
            if c[1] == (0,):
                truth = True
            elif c[1] == (1,):
                truth = False
            else:
                continue
        iv.meet_cmp(op, k, truth)
    return iv
