"""Path-sensitive abstract evaluation of built MIR (no solver, no execution).

`paths(body)` enumerates the control-flow paths of a body (each block at most
`max_visits` times per path, unwind edges ignored) and evaluates every local
and every stored place to an *expression tree* over the function's arguments,
constants and call results. Branches whose condition is a constant, or that
contradict an earlier decision on a structurally identical condition, are
pruned (correlated-condition pruning). Each path yields its decisions, its
events (calls, stores, asserts, yields, drops) and its return expression.

Expressions (tuples):
  ("int", v) ("const", text, ty) ("fn", path) ("arg", i) ("unk", tag)
  ("ref", e) ("deref", e) ("field", e, name, ty) ("downcast", e, variant)
  ("index", e, i) ("cindex", e, off, from_end)
  ("cast", e, ty) ("binop", op, a, b) ("unop", op, a) ("discr", e)
  ("agg", kind, adt, variant, (ops...))
  ("call", name, (args...), uid)     result of an effectful / unknown call
  ("pure", name, (args...), vers)    result of a listed read-only accessor
"""
import re
from .facts import callee_name, fmt_place

PURE_NAMES = {
    "len", "is_empty", "remaining", "as_ref", "deref", "as_bytes", "as_str", "as_slice", "first", "last", "get",
    "iter", "clone", "into", "from", "eq", "ne", "lt", "le", "gt", "ge", "cmp", "partial_cmp", "is_some", "is_none",
    "is_ok", "is_err", "socket_type", "compatible", "has_remaining", "to_owned", "to_string", "to_vec", "borrow",
    "as_mut", "as_deref", "contains_key", "contains", "starts_with", "ends_with", "kind", "waker", "key", "peek",
    "socket_options", "monitor", "version", "chunk", "index", "capacity", "into_iter", "enumerate", "rev", "copied",
    "cloned", "as_pathname", "ip", "port", "local_addr", "peer_addr", "into_future", "new_unchecked", "fuse", "branch",
    "from_residual", "from_output", "as_str", "to_bytes", "default",
    # `log::max_level()`: the level test of every `log::trace!/debug!/..` statement. Read as one value per path, so a path has all
    # its log statements of one level enabled or all disabled (the enabled paths carry every event of the disabled ones) instead of
    # 2^n combinations that differ in nothing a rule looks at
    "max_level",
}
# pure names that nevertheless produce a fresh/unique value each time
FRESH = {"default"}


class PathExplosion(Exception):
    pass


class Event:
    __slots__ = ("kind", "bb", "name", "fn", "args", "result", "place", "value", "extra", "fnpath", "term", "vers", "ncond", "target")

    def __init__(self, kind, bb, fnpath, **kw):
        self.kind = kind
        self.bb = bb
        self.fnpath = fnpath
        self.name = kw.get("name")
        self.fn = kw.get("fn")
        self.target = kw.get("target")
        self.args = kw.get("args")
        self.result = kw.get("result")
        self.place = kw.get("place")
        self.value = kw.get("value")
        self.extra = kw.get("extra")
        self.term = kw.get("term")
        self.vers = kw.get("vers")
        self.ncond = kw.get("ncond")

    def __repr__(self):
        if self.kind == "call":
            return "call %s@bb%d" % (self.name, self.bb)
        if self.kind == "store":
            return "store %s@bb%d" % (self.place, self.bb)
        return "%s@bb%d" % (self.kind, self.bb)


class Path:
    def __init__(self):
        self.conds = []     # (expr, ("eq", v) | ("notin", (v...)), bb, fnpath)
        self.events = []
        self.blocks = []
        self.end = None     # "return" | "diverge" | "unreachable" | "resume" | "cut"
        self.ret = None
        self.env = None
        self.cut_at = None

    def calls(self, pred=None):
        return [e for e in self.events if e.kind == "call" and (pred is None or pred(e))]

    def cell(self, ptr, field):
        """Final value of `(*ptr).field` on this path (None if never written / seeded)."""
        v = self.env.get(("H", ptr, "." + field))
        if v is None and ptr[0] == "arg":
            v = self.env.get("(*_%d).%s" % (ptr[1], field))
        return v


class State:
    def __init__(self, body):
        self.env = {}        # key (str of place) -> expr
        self.pts = {}        # local -> place json it points to (from Rvalue::Ref)
        self.ver = {}        # pointer expr -> version id
        self.visits = {}
        self.conds = []
        self.events = []
        self.blocks = []

    def clone(self):
        s = State.__new__(State)
        s.env = dict(self.env)
        s.pts = dict(self.pts)
        s.ver = dict(self.ver)
        s.visits = dict(self.visits)
        s.conds = list(self.conds)
        s.events = list(self.events)
        s.blocks = list(self.blocks)
        return s


def projstr(proj):
    s = ""
    for el in proj:
        k = el["k"]
        if k == "field":
            s += ".%s" % (el["name"] if el.get("name") is not None else el["i"])
        elif k == "downcast":
            s += "@%s" % (el.get("name") if el.get("name") is not None else el["v"])
        elif k == "deref":
            s += ".*"
        elif k == "index":
            s += "[_%d]" % el["l"]
        elif k == "cindex":
            s += "[%s%d]" % ("-" if el["from_end"] else "", el["off"])
        else:
            s += ".?" + k
    return s


def pkey(place, upto=None):
    proj = place["p"] if upto is None else place["p"][:upto]
    return fmt_place({"l": place["l"], "p": proj})


class Sym:
    def __init__(self, facts, max_visits=2, max_paths=20000, inline=None, inline_depth=2, pure=None,
                 stop_blocks=None, stop_calls=None, cut_at_yield=False):
        self.facts = facts
        self.stop_blocks = set(stop_blocks or ())     # (fnpath, bb): finish the path when entered a 2nd time
        self.stop_calls = stop_calls or (lambda fn: False)   # finish the path at such a call (e.g. self-recursion)
        self.cut_at_yield = cut_at_yield
        self.max_visits = max_visits
        self.max_paths = max_paths
        self.inline = inline or (lambda fn: False)
        self.inline_depth = inline_depth
        self.expand_combinators = True
        self.inline_async = False
        self.uid = 0
        self.pure = pure or PURE_NAMES

    # ------------------------------------------------------------ evaluation
    def read_place(self, st, place):
        n = len(place["p"])
        # memory reached through a pointer is keyed by the pointer's *value*, not by the local that happens to hold it:
        # caller and (virtually inlined) callee, or two reborrows of `self`, see the same cells
        di = next((i for i, el in enumerate(place["p"]) if el["k"] == "deref"), None)
        if di is not None:
            ptr = self.read_place(st, {"l": place["l"], "p": place["p"][:di]})
            if ptr[0] != "ref":
                rest = place["p"][di + 1:]
                for k in range(len(rest), -1, -1):
                    hk = ("H", ptr, projstr(rest[:k]))
                    if hk in st.env:
                        return self.apply_proj(st, st.env[hk], rest[k:])
        # longest prefix with a binding
        for k in range(n, -1, -1):
            key = pkey(place, k)
            if key in st.env:
                e = st.env[key]
                return self.apply_proj(st, e, place["p"][k:])
        l = place["l"]
        return self.apply_proj(st, ("unk", "_%d" % l), place["p"])

    def addr_of(self, st, place):
        """Where a store through a pointer lands, as an expression over the *pointer's value*: `(*_1).0 = x` inside a helper that
        was called with `&mut self.marker` is a store to `self.marker.0` whatever the helper calls its parameter. None for locals."""
        di = next((i for i, el in enumerate(place["p"]) if el["k"] == "deref"), None)
        if di is None:
            return None
        ptr = self.read_place(st, {"l": place["l"], "p": place["p"][:di]})
        e = ptr[1] if ptr[0] == "ref" else ("deref", ptr)
        for el in place["p"][di + 1:]:
            k = el["k"]
            if k == "field":
                e = ("field", e, el.get("name") if el.get("name") is not None else el["i"], el["ty"])
            elif k == "downcast":
                e = ("downcast", e, el.get("name") if el.get("name") is not None else el["v"])
            elif k == "deref":
                e = ("deref", e)
            else:
                e = ("proj", e, k)
        return e

    def apply_proj(self, st, e, proj):
        for el in proj:
            k = el["k"]
            if k == "deref":
                if e[0] == "ref":
                    e = e[1]
                else:
                    e = ("deref", e)
            elif k == "field":
                if e[0] == "downcast" and e[2] in ("Ok", "Some") and e[1][0] == "pure" and e[1][1].startswith("int_try_from") and el["i"] == 0:
                    e = ("cast", e[1][2][0], e[1][1].split(":", 1)[1])      # the checked value itself
                elif e[0] == "agg" and e[1] in ("tuple", "adt", "closure", "coroutine") and el["i"] < len(e[4]):
                    e = e[4][el["i"]]
                else:
                    e = ("field", e, el.get("name") if el.get("name") is not None else el["i"], el["ty"])
            elif k == "downcast":
                if e[0] == "agg" and e[1] == "adt" and e[3] == el.get("name"):
                    pass          # downcast of a known variant is transparent
                else:
                    e = ("downcast", e, el.get("name") if el.get("name") is not None else el["v"])
            elif k == "index":
                e = ("index", e, st.env.get("_%d" % el["l"], ("unk", "_%d" % el["l"])))
            elif k == "cindex":
                e = ("cindex", e, el["off"], el["from_end"])
            else:
                e = ("proj", e, k)
        return e

    def operand(self, st, o):
        if o["k"] == "const":
            if "int" in o:
                return ("int", o["int"])
            if "fn" in o:
                return ("fn", callee_name(o["fn"]))
            if "static" in o:
                return ("const", "static " + o["static"], o["ty"])
            if "lit" in o:
                return ("const", o["lit"], o["ty"])
            return ("const", o["val"], o["ty"])
        if o["k"] in ("copy", "move"):
            return self.read_place(st, o["place"])
        return ("unk", "operand")

    def rvalue(self, st, rv):
        k = rv["k"]
        if k == "use":
            return self.operand(st, rv["op"])
        if k == "copy_for_deref":
            return self.read_place(st, rv["place"])
        if k in ("ref", "rawptr"):
            e = self.read_place(st, rv["place"])
            if e[0] == "deref":
                return e[1]       # reborrow: same pointer
            return ("ref", e)
        if k == "cast":
            a = self.operand(st, rv["op"])
            if a[0] == "int" and rv["ck"].startswith("IntToInt"):
                return a if not rv["ty"].startswith("u8") else ("int", a[1] & 0xFF)
            return ("cast", a, rv["ty"])
        if k == "binop":
            a = self.operand(st, rv["a"])
            b = self.operand(st, rv["b"])
            return fold_binop(rv["op"], a, b)
        if k == "unop":
            a = self.operand(st, rv["a"])
            if rv["op"] == "Not" and a[0] == "int" and a[1] in (0, 1):
                return ("int", 1 - a[1])
            return ("unop", rv["op"], a)
        if k == "discriminant":
            e = self.read_place(st, rv["place"])
            if e[0] == "agg" and e[1] == "adt":
                d = self._variant_discr(e[2], e[3])
                if d is not None:
                    return ("int", d)
                return ("variant", e[2], e[3])
            return ("discr", e, rv["place"].get("ty"))
        if k == "aggregate":
            return ("agg", rv["ak"], rv.get("adt") or rv.get("def"), rv.get("variant_name"),
                    tuple(self.operand(st, o) for o in rv["ops"]))
        if k == "repeat":
            return ("repeat", self.operand(st, rv["op"]), rv["count"])
        return ("unk", "rv:" + k)

    def assign(self, st, place, e, rv=None):
        di = next((i for i, el in enumerate(place["p"]) if el["k"] == "deref"), None)
        if di is not None:
            ptr = self.read_place(st, {"l": place["l"], "p": place["p"][:di]})
            if ptr[0] != "ref":
                sfx = projstr(place["p"][di + 1:])
                for k in [k for k in st.env if isinstance(k, tuple) and k[0] == "H" and k[1] == ptr and k[2] != sfx and (k[2].startswith(sfx) or sfx.startswith(k[2]))]:
                    del st.env[k]
                st.env[("H", ptr, sfx)] = e
                # drop a stale syntactic binding of the same cell (seeds)
                st.env.pop(pkey(place), None)
                return
        key = pkey(place)
        # kill longer keys
        pre = key
        for k in [k for k in st.env if isinstance(k, str) and k != key and k.startswith(pre) and k[len(pre):len(pre) + 1] in (".", "[", ")", " ")]:
            del st.env[k]
        # keys that wrap this place syntactically, e.g. "(*_1).f" when assigning "_1"
        if not place["p"]:
            tag = "_%d" % place["l"]
            for k in list(st.env):
                if isinstance(k, str) and k != key and _mentions(k, tag):
                    del st.env[k]
            st.pts.pop(place["l"], None)
            if rv is not None and rv["k"] == "ref":
                st.pts[place["l"]] = (rv["place"], rv["bk"])
            elif rv is not None and rv["k"] == "use" and rv["op"]["k"] in ("copy", "move") and not rv["op"]["place"]["p"]:
                src = rv["op"]["place"]["l"]
                if src in st.pts:
                    st.pts[place["l"]] = st.pts[src]
        st.env[key] = e

    def havoc_arg(self, st, o, uid, looked_through=False):
        """A call received `o`; if it is a mutable reference, whatever it points to may change.
        looked_through: the callee's body was run in place, so the cells it reached through this very pointer value hold what it
        wrote (its own opaque calls havocked them where needed); only aliases the caller knows under another name are forgotten."""
        if o["k"] not in ("copy", "move"):
            return
        pl = o["place"]
        ty = pl.get("ty", "")
        if not (ty.startswith("&mut") or ty.startswith("std::pin::Pin<&mut")):
            return
        ptr = self.read_place(st, pl)
        st.ver[ptr] = uid
        if not looked_through:
            for k in [k for k in st.env if isinstance(k, tuple) and k[0] == "H" and k[1] == ptr]:
                del st.env[k]
        if not pl["p"] and pl["l"] in st.pts:
            tgt, bk = st.pts[pl["l"]]
            hops = 0
            while looked_through and tgt["p"] and tgt["p"][0]["k"] == "deref" and tgt["l"] in st.pts and hops < 4:
                # a reborrow `&mut *r` of a reference `r = &mut local...`: the pointee is that local place
                base = st.pts[tgt["l"]][0]
                tgt = {"l": base["l"], "p": list(base["p"]) + list(tgt["p"][1:])}
                hops += 1
            key = pkey(tgt)
            old = st.env.get(key)
            if old is None:
                old = self.read_place(st, tgt)
            for k in [k for k in st.env if isinstance(k, str) and (k == key or (k.startswith(key) and k[len(key):len(key) + 1] in (".", "[", ")")))]:
                del st.env[k]
            tdi = next((i for i, el in enumerate(tgt["p"]) if el["k"] == "deref"), None)
            if tdi is not None:
                tptr = self.read_place(st, {"l": tgt["l"], "p": tgt["p"][:tdi]})
                sfx = projstr(tgt["p"][tdi + 1:])
                if looked_through and tptr == ptr and not sfx:
                    return      # a plain reborrow `&mut *p` of the pointer the callee wrote through: same cells
                for k in [k for k in st.env if isinstance(k, tuple) and k[0] == "H" and k[1] == tptr and (k[2].startswith(sfx) or sfx.startswith(k[2]))]:
                    del st.env[k]
            if not any(el["k"] == "deref" for el in tgt["p"]):
                st.env[key] = ("havoc", uid, key, old)
            else:
                # pointee of some pointer: bump that pointer's version as well
                for i, el in enumerate(tgt["p"]):
                    if el["k"] == "deref":
                        base = self.read_place(st, {"l": tgt["l"], "p": tgt["p"][:i]})
                        st.ver[base] = uid

    # ------------------------------------------------------------ driver
    def paths(self, body, args=None, depth=0, st0=None, seed=None, seed_conds=None):
        out = []
        st = st0.clone() if st0 is not None else State(body)
        if st0 is None:
            for i in range(1, body.j["arg_count"] + 1):
                st.env["_%d" % i] = args[i - 1] if args else ("arg", i)
            for k, v in (seed or {}).items():
                m = re.match(r"^\(\*_(\d+)\)((?:\.[A-Za-z0-9_]+)+)$", k) if isinstance(k, str) else None
                if m and ("_%s" % m.group(1)) in st.env:
                    st.env[("H", st.env["_%s" % m.group(1)], m.group(2))] = v
                else:
                    st.env[k] = v
            for (e, c) in (seed_conds or ()):
                st.conds.append((e, c, -1, body.path))
        self._walk(body, 0, st, out, depth)
        return out

    def _finish(self, st, end, ret, out):
        p = Path()
        p.conds = st.conds
        p.events = st.events
        p.blocks = st.blocks
        p.end = end
        p.ret = ret
        p.env = st.env
        p.state = st
        out.append(p)
        if len(out) > self.max_paths:
            raise PathExplosion("more than %d paths" % self.max_paths)

    def _walk(self, body, bb, st, out, depth):
        fnpath = body.path
        while True:
            v = st.visits.get((fnpath, bb), 0)
            if v >= 1 and (fnpath, bb) in self.stop_blocks:
                self._finish(st, "stop", None, out)
                return
            if v >= self.max_visits:
                self._finish(st, "cut", None, out)
                out[-1].cut_at = (fnpath, bb)
                return
            st.visits[(fnpath, bb)] = v + 1
            st.blocks.append((fnpath, bb))
            blk = body.blocks[bb]
            for s in blk["stmts"]:
                if s["k"] == "assign":
                    e = self.rvalue(st, s["rv"])
                    if s["place"]["p"]:
                        idx = tuple(st.env.get("_%d" % el["l"], ("unk", "_%d" % el["l"])) for el in s["place"]["p"] if el["k"] == "index")
                        st.events.append(Event("store", bb, fnpath, place=pkey(s["place"]), value=e, extra=s, args=idx, target=self.addr_of(st, s["place"])))
                    self.assign(st, s["place"], e, s["rv"])
                elif s["k"] == "set_discr":
                    st.events.append(Event("store", bb, fnpath, place=pkey(s["place"]) + "#discr", value=("int", s["v"]), extra=s))
            t = blk["term"]
            k = t["k"]
            if k == "goto" or k == "false_edge" or k == "false_unwind":
                bb = t["t"]
                continue
            if k == "return":
                self._finish(st, "return", st.env.get("_0", ("unk", "_0")), out)
                return
            if k in ("unreachable", "resume", "terminate", "coroutine_drop"):
                self._finish(st, k, None, out)
                return
            if k == "assert":
                c = self.operand(st, t["cond"])
                st.events.append(Event("assert", bb, fnpath, value=c, extra=t, ncond=len(st.conds), term=t,
                                       vers=dict(st.ver)))
                bb = t["t"]
                continue
            if k == "drop":
                st.events.append(Event("drop", bb, fnpath, place=pkey(t["place"]), value=self.read_place(st, t["place"]),
                                       extra=t["place"].get("ty")))
                bb = t["t"]
                continue
            if k == "yield":
                st.events.append(Event("yield", bb, fnpath, value=self.operand(st, t["value"]), term=t))
                if self.cut_at_yield:
                    self._finish(st, "yield", None, out)
                    return
                self.uid += 1
                self.assign(st, t["resume_arg"], ("resume", self.uid))
                bb = t["resume"]
                continue
            if k == "switch":
                e = self.operand(st, t["op"])
                choices = []
                tvals = [v for v, _ in t["targets"]]
                if e[0] == "int":
                    tgt = t["otherwise"]
                    for v, b in t["targets"]:
                        if v == e[1]:
                            tgt = b
                    bb = tgt
                    continue
                if e[0] == "variant":
                    # discriminant of a freshly built aggregate: resolve through the ADT table
                    idx = self._variant_discr(e[1], e[2])
                    if idx is not None:
                        tgt = t["otherwise"]
                        for v, b in t["targets"]:
                            if v == idx:
                                tgt = b
                        bb = tgt
                        continue
                def ok_choice(c_):
                    if not consistent(st.conds, e, c_):
                        return False
                    d = derived_decision(e, c_)
                    return d is None or consistent(st.conds, d[0], d[1])
                for v, b in t["targets"]:
                    if ok_choice(("eq", v)):
                        choices.append((("eq", v), b))
                oth = ("notin", tuple(tvals))
                if e[0] == "discr" and len(tvals) == 1 and tvals[0] in (0, 1) and self._two_variants(e[2] if len(e) > 2 else None):
                    oth = ("eq", 1 - tvals[0])       # the only other variant of a two-variant enum
                if ok_choice(oth):
                    choices.append((oth, t["otherwise"]))
                # an `otherwise` that is an unreachable block is not a real choice
                choices = [(c, b) for c, b in choices if not (body.blocks[b]["term"]["k"] == "unreachable" and not body.blocks[b]["stmts"])]
                if not choices:
                    self._finish(st, "infeasible", None, out)
                    return
                for i, (c, b) in enumerate(choices):
                    s2 = st if i == len(choices) - 1 else st.clone()
                    s2.conds.append((e, c, bb, fnpath))
                    d = derived_decision(e, c)
                    if d is not None:
                        s2.conds.append((d[0], d[1], bb, fnpath))
                    self._walk(body, b, s2, out, depth)
                return
            if k == "call":
                fn = t["func"].get("fn")
                name = callee_name(fn) if fn else "?indirect"
                args = tuple(self.operand(st, a) for a in t["args"])
                self.uid += 1
                uid = self.uid
                short = fn["name"] if fn else "?"
                if fn and self.stop_calls(fn):
                    st.events.append(Event("call", bb, fnpath, name=name, fn=fn, args=args, result=None, term=t, extra="stop"))
                    self._finish(st, "stop", None, out)
                    return
                if fn and short in ("call_once", "call_mut", "call") and ("ops::FnOnce::" in name or "ops::FnMut::" in name or "ops::Fn::" in name or "ops::function::Fn" in name) and len(args) == 2 and depth < self.inline_depth + 1:
                    # calling a closure value that is known on this path (a helper applying its `impl FnOnce` parameter)
                    c0 = args[0]
                    while c0[0] == "ref" or c0[0] == "havoc":      # a FnMut closure after an earlier call: same code
                        c0 = c0[1] if c0[0] == "ref" else c0[3]
                    cal = self._callable(c0) if (c0[0] == "agg" and c0[1] == "closure") else None
                    tup = args[1]
                    if cal is not None and cal[0] == "closure" and tup[0] == "agg" and tup[1] == "tuple" and cal[1].path != fnpath:
                        ev = Event("call", bb, fnpath, name=name, fn=fn, args=args, result=None, term=t, extra="inlined",
                                   vers=tuple(st.ver.get(a, 0) for a in args), ncond=len(st.conds))
                        self._inline_call(body, t, st, out, depth, cal[1], [cal[2]] + list(tup[4]), ev, uid)
                        return
                if fn and short in self.INTERNAL_ITERATION and (name.endswith("Iterator::" + short) or name.endswith("Iterator>::" + short)) and self.expand_combinators and \
                        len(args) == (3 if short == "fold" else 2) and depth < self.inline_depth + 1:
                    c0 = args[-1]
                    cal = self._callable(c0) if (c0[0] == "agg" and c0[1] == "closure") else None
                    if cal is not None and cal[0] == "closure" and cal[1].path != fnpath:
                        self._iterate(body, bb, t, st, out, depth, short, args[0], args[1] if short == "fold" else None, cal, name, fn,
                                      args, uid, 0)
                        return
                if fn and short in ("put_slice", "extend_from_slice") and len(args) == 2:
                    # `buf.put_slice(&x.to_be_bytes())` is `buf.put_uN(x)` spelled byte-wise (bytes defines put_u64 that way): the event
                    # carries the canonical name, so rules that speak of "the 8-byte size field" see it in either spelling
                    a1 = args[1]
                    while isinstance(a1, tuple) and a1 and a1[0] in ("ref", "deref", "cast"):
                        a1 = a1[1]
                    if isinstance(a1, tuple) and a1 and a1[0] in ("call", "pure") and a1[1].endswith("::to_be_bytes") and len(a1[2]) == 1:
                        m_ = re.search(r"<impl (u8|u16|u32|u64)>::to_be_bytes$", a1[1])
                        if m_:
                            short = "put_" + m_.group(1)
                            name = "bytes::BufMut::" + short
                            args = (args[0], a1[2][0])
                comb = self._combinator(name, short, args) if (fn and self.expand_combinators) else None
                if comb is not None:
                    self._expand_combinator(body, bb, t, st, out, depth, comb, name, fn, args, uid)
                    return
                if self.inline_async and fn and name.endswith("}") and len(args) == 2 and depth < self.inline_depth + 1:
                    # poll of the future of a private async fn that was looked through: run its coroutine body in place
                    cb = self.facts.body(name)
                    fut = None
                    if cb is not None and cb.j.get("coroutine_kind"):
                        fut = next((x for x in walk_expr(args[0]) if isinstance(x, tuple) and x and x[0] == "agg" and x[1] == "coroutine" and x[2] == cb.path), None)
                    if fut is not None and cb.path != fnpath:
                        ev = Event("call", bb, fnpath, name=name, fn=fn, args=args, result=None, term=t, extra="inlined",
                                   vers=tuple(st.ver.get(a, 0) for a in args), ncond=len(st.conds))
                        self._inline_call(body, t, st, out, depth, cb, [fut, args[1]], ev, uid,
                                          wrap=lambda r: ("agg", "adt", "std::task::Poll", "Ready", (r,)))
                        return
                callee_body = None
                if fn and depth < self.inline_depth and self.inline(fn):
                    callee_body = self.facts.body(callee_name(fn)) or self.facts.body(fn["path"])
                    if callee_body is not None and (callee_body.path == fnpath or (callee_body.path, 0) in st.visits and
                                                    any(k[0] == callee_body.path for k in st.blocks[-200:] if False)):
                        callee_body = None      # no self-recursion
                if callee_body is not None and not callee_body.j.get("coroutine_kind"):
                    ev = Event("call", bb, fnpath, name=name, fn=fn, args=args, result=None, term=t, extra="inlined",
                               vers=tuple(st.ver.get(a, 0) for a in args), ncond=len(st.conds))
                    self._inline_call(body, t, st, out, depth, callee_body, args, ev, uid)
                    return
                is_pure = short in self.pure and not any(
                    (a["k"] in ("copy", "move") and (a["place"].get("ty", "").startswith("&mut")))
                    for a in t["args"])
                conv = int_conversion(fn, short, args) if fn else None
                if conv is not None:
                    # integer conversions are casts (From/Into), checked casts (TryFrom) or constants (size_of): never opaque
                    st.events.append(Event("call", bb, fnpath, name=name, fn=fn, args=args, result=conv, term=t,
                                           vers=tuple(st.ver.get(a, 0) for a in args), ncond=len(st.conds)))
                    if t["t"] is None:
                        self._finish(st, "diverge", None, out)
                        return
                    self.assign(st, t["dest"], conv)
                    bb = t["t"]
                    continue
                folded = fold_pure(short, args) if is_pure else None
                if folded is not None:
                    res = folded
                elif is_pure and short not in FRESH:
                    vers = tuple(st.ver.get(a, 0) for a in args)
                    res = ("pure", name, args, vers)
                else:
                    res = ("call", name, args, uid)
                st.events.append(Event("call", bb, fnpath, name=name, fn=fn, args=args, result=res, term=t,
                                       vers=tuple(st.ver.get(a, 0) for a in args), ncond=len(st.conds)))
                if not is_pure:
                    for a in t["args"]:
                        self.havoc_arg(st, a, uid)
                if t["t"] is None:
                    self._finish(st, "diverge", None, out)
                    return
                self.assign(st, t["dest"], res)
                bb = t["t"]
                continue
            # unknown terminator
            self._finish(st, "other:" + k, None, out)
            return

    def _inline_call(self, body, t, st, out, depth, callee_body, cargs, ev, uid, wrap=None, cont=None):
        """virtual inlining: run the callee's paths in place; `ev` (extra="inlined") is the event of the call and ends up carrying
        the value each callee path returned; the caller continues with wrap(ret) in the destination"""
        sub_out = []
        st.events.append(ev)
        cst = st.clone()
        cst.env = {k: v for k, v in st.env.items() if isinstance(k, tuple)}     # memory cells are shared, locals are not
        cst.pts = {}
        for key in [k for k in cst.visits if k[0] == callee_body.path]:
            del cst.visits[key]
        for i in range(1, callee_body.j["arg_count"] + 1):
            cst.env["_%d" % i] = cargs[i - 1] if i - 1 < len(cargs) else ("unk", "arg")
        self._walk(callee_body, 0, cst, sub_out, depth + 1)
        call_idx = len(st.events) - 1
        for p in sub_out:
            if p.end != "return" or t["t"] is None:
                out.append(p)
                continue
            ret = wrap(p.ret) if wrap else p.ret
            s2 = st.clone()
            s2.env = {k: v for k, v in st.env.items() if not isinstance(k, tuple)}
            s2.env.update({k: v for k, v in p.env.items() if isinstance(k, tuple)})  # the callee's writes to memory
            s2.ver = dict(p.state.ver)
            s2.visits = dict(p.state.visits)
            s2.conds = list(p.conds)
            s2.events = list(p.events)
            # the call event itself carries the value this path of the callee returned
            ce = s2.events[call_idx]
            s2.events[call_idx] = Event("call", ce.bb, ce.fnpath, name=ce.name, fn=ce.fn, args=ce.args, result=ret, term=ce.term,
                                        extra="inlined", vers=ce.vers, ncond=ce.ncond)
            s2.blocks = list(p.blocks)
            for a_ in t["args"]:
                self.havoc_arg(s2, a_, uid, looked_through=True)
            if cont is not None:
                cont(s2, ret)
                continue
            self.assign(s2, t["dest"], ret)
            self._walk(body, t["t"], s2, out, depth)

    # Internal iteration with a closure literal: `it.for_each(|x| ..)` and `it.fold(init, |acc, x| ..)` are read as the `for` loop
    # they abbreviate - `next()` decided Some, the closure body run in place on the item, up to the same number of rounds a `for`
    # loop is unrolled - so that rules which follow a loop see the same events in either spelling.
    INTERNAL_ITERATION = ("for_each", "fold")

    def _iterate(self, body, bb, t, st, out, depth, kind, itv, acc, cal, name, fn, args, uid, n):
        fnpath = body.path
        nxname = "<%s as std::iter::Iterator>::next" % ((fn.get("args") or ["?"])[0])

        def step(s_, some):
            self.uid += 1
            nx = ("call", nxname, (("ref", itv),), self.uid)
            s_.events.append(Event("call", bb, fnpath, name=nxname, fn=None, args=(("ref", itv),), result=nx, term=None,
                                   vers=(0,), ncond=len(s_.conds)))
            s_.conds.append((("discr", nx, None), ("eq", 1 if some else 0), bb, fnpath))
            return nx
        # the iterator is exhausted: the call returns (the accumulator / unit)
        s_exit = st.clone()
        step(s_exit, False)
        if t["t"] is None:
            self._finish(s_exit, "diverge", None, out)
        else:
            self.assign(s_exit, t["dest"], acc if kind == "fold" else ("agg", "tuple", None, None, ()))
            self._walk(body, t["t"], s_exit, out, depth)
        if n >= max(1, self.max_visits - 1):
            s_cut = st.clone()
            self._finish(s_cut, "cut", None, out)
            out[-1].cut_at = (fnpath, bb)
            return
        s_it = st.clone()
        nx = step(s_it, True)
        item = ("field", ("downcast", nx, "Some"), "0", None)
        params = [cal[2]] + ([acc, item] if kind == "fold" else [item])
        ev = Event("call", bb, fnpath, name=name, fn=fn, args=args, result=None, term=t, extra="inlined",
                   vers=tuple(s_it.ver.get(a, 0) for a in args), ncond=len(s_it.conds))
        self._inline_call(body, t, s_it, out, depth, cal[1], params, ev, uid,
                          cont=lambda s2, ret: self._iterate(body, bb, t, s2, out, depth, kind, itv, ret if kind == "fold" else acc,
                                                             cal, name, fn, args, uid, n + 1))

    # Option / Result combinators that *decide* something by calling a closure: `opt.map_or(false, |x| ..)`, `is_some_and`, ...
    # They are read as the match they abbreviate, so that their outcome is the same fact as a later `match` on the subject.
    COMBINATORS = {
        ("Option", "map_or"): (("None", 0, ("arg", 1)), ("Some", 1, ("apply", 2))),
        ("Option", "map_or_else"): (("None", 0, ("apply0", 1)), ("Some", 1, ("apply", 2))),
        ("Option", "is_some_and"): (("None", 0, ("int", 0)), ("Some", 1, ("apply", 1))),
        ("Option", "is_none_or"): (("None", 0, ("int", 1)), ("Some", 1, ("apply", 1))),
        ("Result", "map_or"): (("Ok", 0, ("apply", 2)), ("Err", 1, ("arg", 1))),
        ("Result", "map_or_else"): (("Ok", 0, ("apply", 2)), ("Err", 1, ("apply", 1))),
        ("Result", "is_ok_and"): (("Ok", 0, ("apply", 1)), ("Err", 1, ("int", 0))),
        ("Result", "is_err_and"): (("Ok", 0, ("int", 0)), ("Err", 1, ("apply", 1))),
        # value-producing ones whose outcome is a later decision (`opt.ok_or(e)?`, `opt.unwrap_or_else(f)`)
        ("Option", "ok_or"): (("None", 0, ("wrap", "std::result::Result", "Err", ("arg", 1))), ("Some", 1, ("wrap", "std::result::Result", "Ok", ("payload",)))),
        ("Option", "ok_or_else"): (("None", 0, ("wrap", "std::result::Result", "Err", ("apply0", 1))), ("Some", 1, ("wrap", "std::result::Result", "Ok", ("payload",)))),
        ("Option", "unwrap_or_else"): (("None", 0, ("apply0", 1)), ("Some", 1, ("payload",))),
        # chaining: the second step runs only on the success variant, the failure variant passes through unchanged
        ("Option", "and_then"): (("None", 0, ("const", ("agg", "adt", "std::option::Option", "None", ()))), ("Some", 1, ("apply", 1))),
        ("Result", "and_then"): (("Ok", 0, ("apply", 1)), ("Err", 1, ("wrap", "std::result::Result", "Err", ("payload",)))),
    }
    PURE_PREDICATES = ("is_ok", "is_err", "is_some", "is_none", "is_empty")

    def _callable(self, c):
        """how to apply a callable value: ("closure", body, env) / ("fn", body) / ("purefn", path) / None"""
        if c[0] == "agg" and c[1] == "closure":
            cb = self.facts.body(c[2])
            if cb is None or cb.j.get("coroutine_kind"):
                return None
            ty = cb.j["locals"][1]["ty"] if len(cb.j.get("locals", [])) > 1 else ""
            return ("closure", cb, ("ref", c) if ty.startswith("&") else c)
        if c[0] == "fn":
            # a function item: applying it is an ordinary (opaque) call of that function
            return ("purefn", c[1]) if c[1].split("::")[-1] in self.PURE_PREDICATES else ("opaquefn", c[1])
        return None

    def _combinator(self, name, short, args):
        fam = "Option" if "option::Option" in name else ("Result" if "result::Result" in name else None)
        spec = self.COMBINATORS.get((fam, short))
        if spec is None or not args:
            return None
        def resolve(act):
            if act[0] in ("apply", "apply0"):
                if act[1] >= len(args):
                    return None
                c = self._callable(args[act[1]])
                return None if c is None else (act[0], c)
            if act[0] == "arg":
                return None if act[1] >= len(args) else ("value", args[act[1]])
            if act[0] == "wrap":
                inner = resolve(act[3])
                return None if inner is None else ("wrap", act[1], act[2], inner)
            if act[0] == "payload":
                return act
            if act[0] == "const":
                return ("value", act[1])
            return ("value", act)
        arms = []
        for (vname, dv, act) in spec:
            r = resolve(act)
            if r is None:
                return None
            arms.append((vname, dv, r))
        return (args[0], arms)

    def _expand_combinator(self, body, bb, t, st, out, depth, comb, name, fn, args, uid):
        fnpath = body.path
        subj, arms = comb
        base = subj
        while isinstance(base, tuple) and base and base[0] == "ref":
            base = base[1]
        known = base[3] if (base[0] == "agg" and base[1] == "adt") else None
        vers = tuple(st.ver.get(a, 0) for a in args)
        for (vname, dv, act) in arms:
            if known is not None and known != vname:
                continue
            s2 = st.clone()
            if known is None:
                de = ("discr", subj, None)
                if not consistent(s2.conds, de, ("eq", dv)):
                    continue
                s2.conds.append((de, ("eq", dv), bb, fnpath))
                payload = ("field", ("downcast", subj, vname), "0", None)
            else:
                payload = base[4][0] if base[4] else ("unk", "payload")
            ev = Event("call", bb, fnpath, name=name, fn=fn, args=args, result=None, term=t, extra="inlined", vers=vers, ncond=len(s2.conds))
            wrap = None
            if act[0] == "wrap":
                wrap = (lambda adt, vn: (lambda r: ("agg", "adt", adt, vn, (r,))))(act[1], act[2])
                act = act[3]
            params = [] if act[0] == "apply0" and vname == "None" else [payload]
            if act[0] in ("apply", "apply0") and act[1][0] == "closure":
                c = act[1]
                self._inline_call(body, t, s2, out, depth, c[1], [c[2]] + params, ev, uid, wrap=wrap)
                continue
            if act[0] == "value":
                val = act[1]
            elif act[0] == "payload":
                val = payload
            elif act[1][0] == "purefn":
                val = ("pure", act[1][1], tuple(params), (0,) * len(params))
            else:
                self.uid += 1
                val = ("call", act[1][1], tuple(params), self.uid)
                s2.events.append(Event("call", bb, fnpath, name=act[1][1], fn=None, args=tuple(params), result=val, term=None,
                                       vers=(0,) * len(params), ncond=len(s2.conds)))
            if wrap:
                val = wrap(val)
            ev.result = val
            s2.events.append(ev)
            if t["t"] is None:
                self._finish(s2, "diverge", None, out)
                continue
            self.assign(s2, t["dest"], val)
            self._walk(body, t["t"], s2, out, depth)

    def _two_variants(self, ty):
        if not ty:
            return False
        base = ty.split("<")[0]
        if base in ("std::option::Option", "std::result::Result", "std::task::Poll", "std::ops::ControlFlow", "core::option::Option",
                    "core::result::Result", "core::task::Poll", "core::ops::ControlFlow"):
            return True
        for p_, a in self.facts.adts.items():
            if a["kind"] == "Enum" and (p_ == base or p_.endswith("::" + base.split("::")[-1])) and len(a["variants"]) == 2:
                ds = [v["discr"] if v["discr"] is not None else i for i, v in enumerate(a["variants"])]
                return sorted(ds) == [0, 1]
        return False

    def _variant_discr(self, adt, vname):
        a = self.facts.adts.get(adt)
        if not a:
            # std enums: Option / Result / ControlFlow / Poll
            table = {"None": 0, "Some": 1, "Ok": 0, "Err": 1, "Continue": 0, "Break": 1, "Ready": 0, "Pending": 1}
            return table.get(vname)
        for i, v in enumerate(a["variants"]):
            if v["name"] == vname:
                return v["discr"] if v["discr"] is not None else i
        return None


INT_TYPES = {"u8": 255, "u16": 65535, "u32": (1 << 32) - 1, "u64": (1 << 64) - 1, "usize": (1 << 64) - 1, "u128": (1 << 128) - 1,
             "i8": 127, "i16": 32767, "i32": (1 << 31) - 1, "i64": (1 << 63) - 1, "isize": (1 << 63) - 1}
INT_SIZES = {"u8": 1, "i8": 1, "u16": 2, "i16": 2, "u32": 4, "i32": 4, "u64": 8, "i64": 8, "usize": 8, "isize": 8, "u128": 16, "i128": 16, "bool": 1}


def int_conversion(fn, short, args):
    ga = fn.get("args") or []
    if short in ("from", "into") and len(args) == 1 and len(ga) == 2 and all(g in INT_TYPES or g == "bool" for g in ga):
        # <T as From<U>>::from(u) has generic args [T, U]; <U as Into<T>>::into(u) has [U, T]
        target = ga[0] if short == "from" else ga[1]
        return ("cast", args[0], target)
    if short == "try_from" and len(args) == 1 and len(ga) == 2 and all(g in INT_TYPES for g in ga):
        return ("pure", "int_try_from:" + ga[0], args, (0,))
    if short == "try_into" and len(args) == 1 and len(ga) == 2 and all(g in INT_TYPES for g in ga):
        return ("pure", "int_try_from:" + ga[1], args, (0,))
    if short == "size_of" and len(ga) == 1 and ga[0] in INT_SIZES and not args:
        return ("int", INT_SIZES[ga[0]])
    if short == "ok" and len(args) == 1:
        a = args[0]
        if a[0] == "pure" and a[1].startswith("int_try_from:"):
            return ("pure", "int_try_from_opt:" + a[1].split(":", 1)[1], a[2], (0,))
    return None


def fold_pure(short, args):
    """Known results of pure std adaptors on freshly built aggregates (keeps infeasible `?` edges out)."""
    if not args:
        return None
    a = args[0]
    while a[0] == "ref":
        a = a[1]
    if a[0] in ("call", "pure") and a[1].split("::")[-1] == "from_residual" and "result::Result" in a[1]:
        # `<Result<T, F> as FromResidual<Result<Infallible, E>>>::from_residual(r)` is Err(From::from(e)): the value an inner `?` returned
        if short == "branch":
            return ("agg", "adt", "core::ops::ControlFlow", "Break", (a,))
        if short in ("is_ok", "is_err"):
            return ("int", int(short == "is_err"))
    if a[0] != "agg" or a[1] != "adt":
        return None
    v = a[3]
    if short == "branch":
        if v in ("Ok", "Some"):
            return ("agg", "adt", "core::ops::ControlFlow", "Continue", a[4])
        if v in ("Err", "None"):
            return ("agg", "adt", "core::ops::ControlFlow", "Break", (a,))
    if short in ("is_some", "is_ok") and v in ("Some", "Ok", "None", "Err"):
        return ("int", int(v in ("Some", "Ok")))
    if short in ("is_none", "is_err") and v in ("Some", "Ok", "None", "Err"):
        return ("int", int(v in ("None", "Err")))
    return None


def _mentions(key, tag):
    i = key.find(tag)
    while i >= 0:
        j = i + len(tag)
        if (j >= len(key) or not key[j].isdigit()) and (i == 0 or not key[i - 1].isalnum()):
            return True
        i = key.find(tag, j)
    return False


def fold_binop(op, a, b):
    base = op.replace("WithOverflow", "").replace("Unchecked", "")
    if a[0] == "int" and b[0] == "int":
        x, y = a[1], b[1]
        r = None
        if base == "Add":
            r = x + y
        elif base == "Sub":
            r = x - y
        elif base == "Mul":
            r = x * y
        elif base == "BitOr":
            r = x | y
        elif base == "BitAnd":
            r = x & y
        elif base == "BitXor":
            r = x ^ y
        elif base == "Shl":
            r = x << y
        elif base == "Shr":
            r = x >> y
        elif base == "Eq":
            r = int(x == y)
        elif base == "Ne":
            r = int(x != y)
        elif base == "Lt":
            r = int(x < y)
        elif base == "Le":
            r = int(x <= y)
        elif base == "Gt":
            r = int(x > y)
        elif base == "Ge":
            r = int(x >= y)
        if r is not None:
            if "WithOverflow" in op:
                return ("agg", "tuple", None, None, (("int", r), ("int", 0)))
            return ("int", r)
    if "WithOverflow" in op:
        return ("agg", "tuple", None, None, (("binop", base, a, b), ("binop", "Overflow" + base, a, b)))
    return ("binop", base, a, b)


_canon_memo = {}


def canon(e):
    """Value identity modulo borrowing: `&x`, `*x`, `opt.as_ref()`, `opt.as_mut()` read the same value as x, and the type text
    attached to a field projection is not part of its identity."""
    if not isinstance(e, tuple) or not e:
        return e
    r = _canon_memo.get(e)
    if r is not None:
        return r
    k = e[0]
    if k in ("ref", "deref"):
        r = canon(e[1])
    elif k in ("pure", "call") and len(e) > 2 and len(e[2]) == 1 and e[1].split("::")[-1] in ("as_ref", "as_mut") and \
            ("option::Option" in e[1] or "result::Result" in e[1]):
        r = canon(e[2][0])
    elif k == "field":
        r = ("field", canon(e[1]), str(e[2]))
    elif k == "downcast":
        r = ("downcast", canon(e[1]), e[2])
    elif k in ("pure", "call") and len(e) > 2:
        r = (k, e[1], tuple(canon(a) for a in e[2])) + tuple(e[3:])
    else:
        r = e
    if len(_canon_memo) > 200000:
        _canon_memo.clear()
    _canon_memo[e] = r
    return r


def ckey(e):
    """Decisions are compared on this key: a discriminant read is the same fact whatever the static type text says and
    through whichever borrow it was read."""
    if isinstance(e, tuple) and e and e[0] == "discr":
        return ("discr", canon(e[1]))
    return e


def derived_decision(e, c):
    """is_some/is_none/is_ok/is_err(x) decided  =>  the same fact about discriminant(x)."""
    if e[0] in ("pure", "call") and e[1].split("::")[-1] in ("is_ready", "is_pending") and "Poll" in e[1] and len(e[2]) == 1:
        t = True if (c == ("notin", (0,)) or c == ("eq", 1)) else (False if c == ("eq", 0) else None)
        if t is None:
            return None
        x = e[2][0]
        while isinstance(x, tuple) and x and x[0] == "ref":
            x = x[1]
        # Poll: Ready = 0, Pending = 1
        ready = t if e[1].split("::")[-1] == "is_ready" else (not t)
        return (("discr", x, None), ("eq", 0 if ready else 1))
    if e[0] == "pure" and e[1].split("::")[-1] in ("is_some", "is_none", "is_ok", "is_err") and len(e[2]) == 1:
        t = True if (c == ("notin", (0,)) or c == ("eq", 1)) else (False if c == ("eq", 0) else None)
        if t is None:
            return None
        n = e[1].split("::")[-1]
        x = e[2][0]
        while isinstance(x, tuple) and x and x[0] == "ref":
            x = x[1]
        # Option: None=0 Some=1 ; Result: Ok=0 Err=1
        v = {"is_some": 1 if t else 0, "is_none": 0 if t else 1, "is_ok": 0 if t else 1, "is_err": 1 if t else 0}[n]
        return (("discr", x, None), ("eq", v))
    return None


def consistent(conds, e, c):
    """Is decision `c` on expression `e` compatible with the earlier decisions on the same expression?"""
    k = ckey(e)
    for (e2, c2, _, _) in conds:
        if e2 != e and ckey(e2) != k:
            continue
        if c2[0] == "eq" and c[0] == "eq" and c2[1] != c[1]:
            return False
        if c2[0] == "eq" and c[0] == "notin" and c2[1] in c[1]:
            return False
        if c2[0] == "notin" and c[0] == "eq" and c[1] in c2[1]:
            return False
    return True


# ------------------------------------------------------------------ helpers for rules
def walk_expr(e):
    """Pre-order iteration over sub-expressions."""
    st = [e]
    while st:
        x = st.pop()
        yield x
        if isinstance(x, tuple):
            for y in x[1:]:
                if isinstance(y, tuple):
                    if y and isinstance(y[0], str):
                        st.append(y)
                    else:
                        for z in y:
                            if isinstance(z, tuple):
                                st.append(z)


def mentions(e, sub):
    return any(x == sub for x in walk_expr(e))


def show(e, depth=0):
    if not isinstance(e, tuple) or not e:
        return str(e)
    k = e[0]
    if k == "int":
        return str(e[1])
    if k == "const":
        return e[1]
    if k == "arg":
        return "arg%d" % e[1]
    if k == "unk":
        return "?" + str(e[1])
    if k == "ref":
        return "&" + show(e[1])
    if k == "deref":
        return "*" + show(e[1])
    if k == "field":
        return "%s.%s" % (show(e[1]), e[2])
    if k == "downcast":
        return "(%s as %s)" % (show(e[1]), e[2])
    if k == "cast":
        return "(%s as %s)" % (show(e[1]), e[2])
    if k == "binop":
        return "%s(%s, %s)" % (e[1], show(e[2]), show(e[3]))
    if k == "unop":
        return "%s(%s)" % (e[1], show(e[2]))
    if k == "discr":
        return "discr(%s)" % show(e[1])
    if k in ("call", "pure"):
        nm = e[1].split("::")[-1] if not e[1].startswith("<") else e[1]
        return "%s(%s)%s" % (nm, ", ".join(show(a) for a in e[2]), ("#%s" % e[3]) if k == "call" else "")
    if k == "agg":
        return "%s%s(%s)" % (e[2] or e[1], ("::" + e[3]) if e[3] else "", ", ".join(show(a) for a in e[4]))
    if k == "cindex":
        return "%s[%s%d]" % (show(e[1]), "-" if e[3] else "", e[2])
    if k == "index":
        return "%s[%s]" % (show(e[1]), show(e[2]))
    return str(e)


class Interval:
    """Closed integer interval with None = unbounded; built from path decisions on one expression."""

    def __init__(self, lo=None, hi=None):
        self.lo = lo
        self.hi = hi
        self.excluded = set()

    def meet_cmp(self, op, c, truth):
        # constraint: (x op c) == truth
        neg = {"Gt": "Le", "Ge": "Lt", "Lt": "Ge", "Le": "Gt", "Eq": "Ne", "Ne": "Eq"}
        if not truth:
            op = neg[op]
        if op == "Gt":
            self.lo = c + 1 if self.lo is None else max(self.lo, c + 1)
        elif op == "Ge":
            self.lo = c if self.lo is None else max(self.lo, c)
        elif op == "Lt":
            self.hi = c - 1 if self.hi is None else min(self.hi, c - 1)
        elif op == "Le":
            self.hi = c if self.hi is None else min(self.hi, c)
        elif op == "Eq":
            self.lo = c if self.lo is None else max(self.lo, c)
            self.hi = c if self.hi is None else min(self.hi, c)
        elif op == "Ne":
            self.excluded.add(c)
            while self.lo is not None and self.lo in self.excluded:
                self.lo += 1
            while self.hi is not None and self.hi in self.excluded:
                self.hi -= 1

    def empty(self):
        return self.lo is not None and self.hi is not None and self.lo > self.hi

    def within(self, lo, hi):
        if lo is not None and (self.lo is None or self.lo < lo):
            return False
        if hi is not None and (self.hi is None or self.hi > hi):
            return False
        return True

    def __repr__(self):
        return "[%s, %s]" % ("-inf" if self.lo is None else self.lo, "+inf" if self.hi is None else self.hi)


FLIP = {"Gt": "Lt", "Ge": "Le", "Lt": "Gt", "Le": "Ge", "Eq": "Eq", "Ne": "Ne"}


def interval_of(conds, x, lo=0, hi=None, upto_block=None):
    """Interval for expression x implied by the path decisions (comparisons of x with integer constants)."""
    iv = Interval(lo, hi)
    for (e, c, bb, fnp) in conds:
        tf = try_from_decision(e, c)
        if tf is not None and strip_cast_expr(tf[0]) == strip_cast_expr(x):
            iv.meet_cmp("Le" if tf[2] else "Gt", tf[1], True)
            continue
        if e[0] != "binop" or e[1] not in FLIP:
            continue
        op, a, b = e[1], e[2], e[3]
        if a == x and b[0] == "int":
            k = b[1]
        elif b == x and a[0] == "int":
            op = FLIP[op]
            k = a[1]
        else:
            continue
        if c[0] == "eq":
            truth = bool(c[1])
        else:
            # notin (0,) => true ; notin (1,) => false
            if c[1] == (0,):
                truth = True
            elif c[1] == (1,):
                truth = False
            else:
                continue
        iv.meet_cmp(op, k, truth)
    return iv


def strip_cast_expr(e):
    while isinstance(e, tuple) and e and e[0] == "cast":
        e = e[1]
    return e


def try_from_decision(e, c):
    """(value expr, max of the target type, fits?) if the decision is about a checked integer conversion:
    discr(int_try_from:T(x)) == 0 (Ok) / 1 (Err), or is_ok()/is_err() of it."""
    x = e
    want_ok = None
    if x[0] == "discr" and c[0] == "eq":
        inner = x[1]
        while inner[0] == "ref":
            inner = inner[1]
        if inner[0] == "pure" and inner[1].startswith("int_try_from:"):
            return (inner[2][0], INT_TYPES[inner[1].split(":", 1)[1]], c[1] == 0)
        if inner[0] == "pure" and inner[1].startswith("int_try_from_opt:"):
            return (inner[2][0], INT_TYPES[inner[1].split(":", 1)[1]], c[1] == 1)
    if x[0] == "pure" and x[1].split("::")[-1] in ("is_some", "is_none") and x[2]:
        inner = x[2][0]
        while inner[0] == "ref":
            inner = inner[1]
        if inner[0] == "pure" and inner[1].startswith("int_try_from_opt:"):
            t = (c == ("notin", (0,))) or (c[0] == "eq" and c[1] == 1)
            f_ = (c[0] == "eq" and c[1] == 0)
            if t or f_:
                some = t if x[1].split("::")[-1] == "is_some" else (not t)
                return (inner[2][0], INT_TYPES[inner[1].split(":", 1)[1]], some)
    if x[0] == "pure" and x[1].split("::")[-1] in ("is_ok", "is_err") and x[2]:
        inner = x[2][0]
        while inner[0] == "ref":
            inner = inner[1]
        if inner[0] == "pure" and inner[1].startswith("int_try_from:"):
            t = (c == ("notin", (0,))) or (c[0] == "eq" and c[1] == 1)
            f_ = (c[0] == "eq" and c[1] == 0)
            if not (t or f_):
                return None
            ok = t if x[1].split("::")[-1] == "is_ok" else (not t)
            return (inner[2][0], INT_TYPES[inner[1].split(":", 1)[1]], ok)
    return None
