"""Thorough tier: compile-fail witnesses (rustdoc, nightly) against /repo's current source, each with a compiling twin.
A failing witness (the offending program now type-checks, or its twin no longer does) is a violation of the
type-level clause it stands for."""
import os
import re
import shutil
import subprocess

from . import extract

VERIF = extract.VERIF
WDIR = os.path.join(VERIF, "witness")


def run(prefixes):
    """prefixes: list of doc-test name prefixes (struct names). -> (results: {name: ok}, error or None)"""
    try:
        shutil.copy(os.path.join(extract.REPO, "Cargo.lock"), os.path.join(WDIR, "Cargo.lock"))
    except OSError as e:
        return {}, "cannot copy Cargo.lock: %s" % e
    # the witness crate path-depends on /repo; when a scratch copy is analysed, point it there
    toml = open(os.path.join(WDIR, "Cargo.toml")).read()
    env = dict(os.environ, CARGO_TARGET_DIR=os.path.join(extract.CACHE, "target-witness"), CARGO_NET_OFFLINE="true")
    cfg = []
    if extract.REPO != "/repo":
        cfg = ["--config", 'patch.crates-io.zeromq.path="%s"' % extract.REPO]
    cmd = ["cargo", "+nightly", "test", "--doc", "--offline"] + cfg + ["--"] + list(prefixes)
    p = subprocess.run(cmd, cwd=WDIR, env=env, capture_output=True, text=True)
    out = p.stdout + p.stderr
    res = {}
    for m in re.finditer(r"^test (src/lib\.rs - (\S+) \(line \d+\)(?: - [a-z ]+)?) \.\.\. (ok|FAILED)", out, re.M):
        res[m.group(1)] = (m.group(3) == "ok")
    if not res and p.returncode != 0:
        return {}, "witness crate did not build: " + out[-1500:]
    return res, None
