"""Entry point: decide one property from /repo's current source.

  bin/check <Cxx> [--tier quick|thorough] [--explain <report.json>]

exit 0  every obligation discharged (KNOWN-FINDING lines allowed)
exit 1  at least one unlisted violation; stdout has `VIOLATION property=<id> replay=<path>`
exit 2  the machinery could not decide (tree does not build, facts stale, internal error)
"""
import argparse
import importlib
import json
import os
import sys
import time
import traceback

from . import extract
from .facts import Facts
from .report import Report, key_hash

VERIF = extract.VERIF
PROPS = ["C%02d" % i for i in range(1, 21)]


class Ctx:
    def __init__(self, prop, tier):
        self.prop = prop
        self.tier = tier
        self._facts = {}
        self.extract_info = {}
        self.report = None

    def facts(self, config="default"):
        if config not in self._facts:
            path, info = extract.facts_path(config)
            self._facts[config] = Facts(path)
            self.extract_info[config] = info
        return self._facts[config]


def load_known():
    p = os.path.join(VERIF, "known_findings.json")
    if not os.path.exists(p):
        return []
    return json.load(open(p)).get("findings", [])


def run_property(prop, tier, write=True):
    t0 = time.time()
    ctx = Ctx(prop, tier)
    mod = importlib.import_module("zrules.rules.%s" % prop.lower())
    configs = ["default"]
    if tier == "thorough":
        # the second feature configuration (async-std runtime, all transports): the cfg-split properties (PER_CONFIG: C17, C18,
        # C20) need it, for the others it re-decides every rule on the other runtime's expansion of the same source
        configs.append("asyncstd")
        configs.append("asyncdisp")
    total = Report(prop, "all")
    for cfg in configs:
        rep = Report(prop, cfg)
        ctx.report = rep
        facts = ctx.facts(cfg)
        mod.run(ctx, facts, rep)
        st = facts.stats()
        rep.count("bodies_in_crate", st["bodies"])
        rep.count("blocks_in_crate", st["blocks"])
        rep.count("call_sites_in_crate", st["call_sites"])
        rep.count("user_written_unsafe_blocks_in_crate", st["unsafe_blocks"])
        if st["unsafe_blocks"]:
            rep.notes.append("ASSUMPTION BROKEN: %d user-written unsafe block(s) in the crate; ownership / lock arguments of the rules assume none"
                             % st["unsafe_blocks"])
        total.merge(rep)
    extra = {}
    if tier == "thorough":
        from . import mutants, witness
        wp = getattr(mod, "WITNESS", None)
        if wp:
            wres, werr = witness.run(wp)
            if werr:
                raise extract.InfraError(werr)
            rep = Report(prop, "witness")
            for name, ok in sorted(wres.items()):
                rep.check(ok, "E3", "E3|%s" % name.split(" (line")[0].replace("src/lib.rs - ", "") + "|" + ("compile-fail" if "compile fail" in name else "twin"),
                          "type-level witness %s: %s" % (name, "holds" if ok else "NO LONGER holds (the offending program type-checks, or its twin stopped compiling)"))
            rep.floor("E3", "witness doc-tests run for %s" % ",".join(wp), len(wres), 2)
            total.merge(rep)
            extra["witnesses"] = {k: v for k, v in wres.items()}
        extra.update(mutants.replay(prop, mod))
    # known findings
    known = [k for k in load_known() if k.get("property") == prop and k.get("status") == "known"]
    from .report import norm_key
    known_keys = {norm_key(k["key"]): k for k in known}
    viols = []
    seen = set()
    lines = []
    for o in total.violations:
        tag = (o.key, o.config)
        if norm_key(o.key) in known_keys:
            if o.key not in seen:
                lines.append("KNOWN-FINDING: property=%s %s" % (prop, known_keys[norm_key(o.key)]["what"]))
            seen.add(o.key)
            continue
        viols.append(o)
    rdir = os.path.join(VERIF, "reports", prop)
    printed = set()
    for o in viols:
        os.makedirs(rdir, exist_ok=True)
        path = os.path.join(rdir, key_hash(o.key) + ".json")
        json.dump({"property": prop, "tier": tier, **o.as_json()}, open(path, "w"), indent=1)
        if o.key in printed:
            continue
        printed.add(o.key)
        lines.append("VIOLATION property=%s replay=%s" % (prop, path))
        lines.append("  rule=%s key=%s\n  %s\n  at %s%s" % (o.rule, o.key, o.what, o.loc or "?", ("\n  " + str(o.detail)) if o.detail else ""))
    wall = time.time() - t0
    if write:
        write_evidence(prop, tier, mod, total, viols, seen, ctx, wall, configs, extra)
    return total, viols, lines


def write_evidence(prop, tier, mod, total, viols, known_seen, ctx, wall, configs, extra):
    obls = total.obls
    distinct = len({(o.key, o.config) for o in obls})
    samples = [o.as_json() for o in obls[:400]]
    cov = {
        "explanation": (getattr(mod, "EXPLANATION", "") or mod.__doc__ or "").strip(),
        "obligations": len(obls),
        "discharged": len([o for o in obls if o.ok]),
        "evaluations": max(len(obls), getattr(total, "evaluations", 0)),
        "distinct_nontrivial": distinct,
        "rule": "one obligation per rule instance (call site, path, table entry, suspension point) found in the "
                "built MIR of /repo's current tree; distinct = distinct (key, config) pairs; floors fail closed",
        "samples": samples,
        "exhaustive": True,
        "analysed": total.analysed,
        "configs": configs,
        "extraction": ctx.extract_info,
        "rules": getattr(mod, "RULES", {}),
        "known_findings_matched": sorted(known_seen),
        "not_decided": getattr(mod, "NOT_DECIDED", ""),
        "checker_cmd": "./bin/check %s --tier %s" % (prop, tier),
        "trusted_base": ["rustc MIR construction and trait resolution (nightly)", "zrules contract table for bytes/futures/asynchronous-codec/scc/crossbeam/parking_lot/std",
                         "RFC 23/28/29/30/31 tables embedded in the checker"],
        "notes": total.notes,
    }
    cov.update(extra or {})
    ev = {
        "property_id": prop,
        "tier": tier,
        "seed": int(os.environ.get("VERIF_SEED", "0") or 0),
        "level": "other",
        "coverage": cov,
        "assumptions": getattr(mod, "ASSUMPTIONS", []),
        "wall_s": round(wall, 2),
        "violations": len(viols),
    }
    os.makedirs(os.path.join(VERIF, "evidence"), exist_ok=True)
    tmp = os.path.join(VERIF, "evidence", "%s.json.tmp%d" % (prop, os.getpid()))
    json.dump(ev, open(tmp, "w"), indent=1, default=str)
    os.replace(tmp, os.path.join(VERIF, "evidence", "%s.json" % prop))


def main(argv=None):
    ap = argparse.ArgumentParser()
    ap.add_argument("prop")
    ap.add_argument("--tier", default=os.environ.get("VERIF_TIER", "quick"), choices=["quick", "thorough"])
    ap.add_argument("--explain", default=None)
    ap.add_argument("--verbose", "-v", action="store_true")
    a = ap.parse_args(argv)
    prop = a.prop.upper()
    if prop not in PROPS:
        print("unknown property", prop, file=sys.stderr)
        return 2
    try:
        # evidence and reports describe /repo only: a developer run against another tree (ZMQ_REPO) writes nothing
        total, viols, lines = run_property(prop, a.tier, write=(os.path.realpath(extract.REPO) == "/repo"))
    except extract.InfraError as e:
        print("INFRA-ERROR property=%s: %s" % (prop, e), file=sys.stderr)
        return 2
    except Exception:
        traceback.print_exc()
        print("INFRA-ERROR property=%s: internal error in the checker" % prop, file=sys.stderr)
        return 2
    if a.explain:
        want = json.load(open(a.explain)).get("key")
        for o in total.obls:
            if o.key == want:
                print(json.dumps(o.as_json(), indent=1))
    for l in lines:
        print(l)
    nv = len({o.key for o in viols})
    print("%s tier=%s obligations=%d discharged=%d violations=%d known=%d" % (
        prop, a.tier, len(total.obls), len([o for o in total.obls if o.ok]), nv,
        len([l for l in lines if l.startswith("KNOWN-FINDING")])))
    if a.verbose:
        for o in total.obls:
            print("  [%s] %s %s -- %s (%s)" % ("ok" if o.ok else "XX", o.rule, o.key, o.what, o.loc))
    return 1 if viols else 0


if __name__ == "__main__":
    sys.exit(main())
