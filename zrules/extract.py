"""Run the zmqfacts driver over /repo's *current working tree* and return the fact file.

A content hash of everything the build reads (src/, Cargo.toml, Cargo.lock,
.cargo/) is recomputed on every invocation; facts are reused only when the hash
matches, so an edited tree is always re-extracted. Stale or missing facts are a
hard error (exit 2), never a pass."""
import fcntl
import hashlib
import os
import shutil
import subprocess
import sys
import time

VERIF = os.path.dirname(os.path.dirname(os.path.abspath(__file__)))
REPO = os.environ.get("ZMQ_REPO", "/repo")
CACHE = os.environ.get("ZRULES_CACHE", os.path.join(VERIF, ".cache"))
DRIVER_DIR = os.path.join(VERIF, "engine", "zmqfacts")
DRIVER = os.path.join(DRIVER_DIR, "target", "release", "zmqfacts")

CONFIGS = {
    "default": [],
    "asyncstd": ["--no-default-features", "--features", "async-std-runtime,all-transport"],
    "asyncdisp": ["--no-default-features", "--features", "async-dispatcher-runtime,all-transport"],
}


class InfraError(Exception):
    pass


def tree_hash(repo):
    h = hashlib.sha256()
    roots = ["src", "Cargo.toml", "Cargo.lock", ".cargo", "build.rs"]
    for r in roots:
        p = os.path.join(repo, r)
        if os.path.isfile(p):
            h.update(r.encode())
            h.update(open(p, "rb").read())
        elif os.path.isdir(p):
            for dp, dn, fn in sorted(os.walk(p)):
                dn.sort()
                for f in sorted(fn):
                    fp = os.path.join(dp, f)
                    h.update(os.path.relpath(fp, repo).encode())
                    h.update(open(fp, "rb").read())
    drv = os.path.join(DRIVER_DIR, "src", "main.rs")
    h.update(open(drv, "rb").read())
    return h.hexdigest()[:20]


def sysroot_lib():
    out = subprocess.run(["rustc", "+nightly", "--print", "sysroot"], capture_output=True, text=True)
    if out.returncode != 0:
        raise InfraError("nightly toolchain not available: " + out.stderr)
    return os.path.join(out.stdout.strip(), "lib")


def ensure_driver():
    src = os.path.join(DRIVER_DIR, "src", "main.rs")
    if os.path.exists(DRIVER) and os.path.getmtime(DRIVER) >= os.path.getmtime(src):
        return
    env = dict(os.environ, CARGO_NET_OFFLINE="true")
    p = subprocess.run(["cargo", "+nightly", "build", "--release", "--offline"], cwd=DRIVER_DIR, env=env,
                       capture_output=True, text=True)
    if p.returncode != 0 or not os.path.exists(DRIVER):
        raise InfraError("cannot build zmqfacts driver:\n" + p.stderr[-4000:])


def facts_path(config="default", repo=None, cache=None, verbose=False):
    repo = repo or REPO
    cache = cache or CACHE
    os.makedirs(cache, exist_ok=True)
    if config not in CONFIGS:
        raise InfraError("unknown config " + config)
    th = tree_hash(repo)
    out = os.path.join(cache, "facts-%s-%s.json" % (config, th))
    if os.path.exists(out) and os.path.getsize(out) > 1000 and os.path.exists(DRIVER) and time.time() - os.path.getmtime(out) > 2:
        # already extracted for exactly this tree: no need to queue behind other trees' extractions
        return out, {"reused": True, "tree_hash": th, "extract_s": 0.0}
    # replay tools that run many trees in parallel may spread the builds over several target directories (ZMQ_EXTRACT_SLOTS=n)
    slots = max(1, int(os.environ.get("ZMQ_EXTRACT_SLOTS", "1")))
    slot = os.getpid() % slots
    sfx = "" if slot == 0 else "-s%d" % slot
    lock = open(os.path.join(cache, "extract-%s%s.lock" % (config, sfx)), "w")
    fcntl.flock(lock, fcntl.LOCK_EX)
    try:
        ensure_driver()
        if os.path.exists(out) and os.path.getsize(out) > 1000:
            return out, {"reused": True, "tree_hash": th, "extract_s": 0.0}
        # drop older fact files of this config (bounded disk use)
        olds = sorted((f for f in os.listdir(cache) if f.startswith("facts-%s-" % config) and f.endswith(".json")),
                      key=lambda f: os.path.getmtime(os.path.join(cache, f)))
        for f in olds[:-40]:
            try:
                os.remove(os.path.join(cache, f))
            except OSError:
                pass
        target = os.path.join(cache, "target-%s%s" % (config, sfx))
        fp = os.path.join(target, "debug", ".fingerprint")
        if os.path.isdir(fp):
            for d in os.listdir(fp):
                if d.startswith("zeromq-"):
                    shutil.rmtree(os.path.join(fp, d), ignore_errors=True)
        env = dict(os.environ)
        env.update({
            "LD_LIBRARY_PATH": sysroot_lib() + ":" + env.get("LD_LIBRARY_PATH", ""),
            "RUSTFLAGS": "-Zmir-opt-level=0 -Awarnings",
            "RUSTC_WORKSPACE_WRAPPER": DRIVER,
            "ZMQFACTS_OUT": out,
            "ZMQFACTS_CRATE": "zeromq",
            "CARGO_TARGET_DIR": target,
            "CARGO_NET_OFFLINE": "true",
        })
        env.pop("RUSTC_WRAPPER", None)
        t0 = time.time()
        cmd = ["cargo", "+nightly", "check", "--offline", "--lib", "--manifest-path",
               os.path.join(repo, "Cargo.toml")] + CONFIGS[config]
        p = subprocess.run(cmd, cwd=repo, env=env, capture_output=True, text=True)
        dt = time.time() - t0
        if p.returncode != 0:
            raise InfraError("cargo check failed for config %s (tree does not build?):\n%s" % (config, p.stderr[-6000:]))
        if not os.path.exists(out):
            raise InfraError("driver did not write facts (cargo skipped the wrapper?)\n" + p.stderr[-3000:])
        if os.path.getmtime(out) < t0 - 1:
            raise InfraError("stale fact file")
        return out, {"reused": False, "tree_hash": th, "extract_s": round(dt, 2)}
    finally:
        fcntl.flock(lock, fcntl.LOCK_UN)
        lock.close()


if __name__ == "__main__":
    cfg = sys.argv[1] if len(sys.argv) > 1 else "default"
    try:
        print(facts_path(cfg))
    except InfraError as e:
        print("INFRA-ERROR:", e, file=sys.stderr)
        sys.exit(2)
