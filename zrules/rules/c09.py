"""C09 - ROUTER identity labelling and routing (structural clauses).

Decides: (R09.1) ROUTER recv returns the received message after exactly one push_front whose argument is the
queue key of the same item, and no other mutation; (R09.2) ROUTER send looks the peer up with the identity
converted from the popped first frame of the caller's message, writes only on the Some arm and on that entry,
and returns Err (no write) when no such peer is registered or the frame is not a valid identity; (R09.3) the
provenance chain handshake identity -> table key -> queue key (C04 R04.1 identity-provenance, R04.3 identity
rule, R04.4 registration keys and overwrite semantics, re-evaluated here); (R09.4) the local identity option is
what the handshake announces (C01 R01.7 re-evaluated). Does NOT decide uniqueness of generated identities nor
behaviour with duplicate announced identities."""
from ..sym import show, walk_expr
from ..common import short
from .. import pathq
from ..report import Report
from .c07 import socket_coroutine, wire_writes, msg_mutations, is_param_msg

EXPLANATION = __doc__
NOT_DECIDED = "uniqueness of generated UUIDs; histories with duplicate announced identities"
ASSUMPTIONS = ["scc::HashMap::get_async(key) returns the entry stored under exactly that key"]
RULES = {
    "R09.1": "ROUTER recv: one push_front(key of the same item), nothing else",
    "R09.2": "ROUTER send: lookup by popped first frame; write only on hit; miss / bad identity -> Err, no write",
    "R09.3": "identity provenance: handshake -> table key -> queue key (C04 rules re-evaluated)",
    "R09.4": "announced identity = configured option (C01 R01.7 re-evaluated)",
    "R09.F": "foundation clauses re-evaluated as necessary conditions: " + ", ".join(['decoder', 'wakeup']),
}


DEPENDS = ['decoder', 'wakeup']     # foundation groups re-evaluated as necessary conditions (rules/found.py)


def run(ctx, f, rep):
    from . import found
    found.import_groups(ctx, f, rep, 'C09', DEPENDS)
    co = socket_coroutine(f, "SocketRecv", "recv", "RouterSocket")
    if co is None:
        rep.bad("R09.1", "R09.1|anchor", "RouterSocket::recv not found (anchor-missing)")
    else:
        n = 0
        for p in pathq.paths(f, co, inline_async=True):
            if p.end != "return" or pathq.ret_kind(p) != "Ok":
                continue
            n += 1
            muts = msg_mutations(p, lambda e: True)
            pf = [m for _, m in muts if short(m.name) == "push_front"]
            other = [short(m.name) for _, m in muts if short(m.name) != "push_front"]
            ok = False
            why = "push_front count %d" % len(pf)
            if len(pf) == 1 and not other:
                m = pf[0]
                item_msg = pathq.mentions_call(m.args[0], lambda x: short(x[1]) in ("poll", "poll_next") and not x[1].endswith("}"))
                item_key = pathq.mentions_call(m.args[1], lambda x: short(x[1]) in ("poll", "poll_next") and not x[1].endswith("}"))
                key_is_0 = any(isinstance(x, tuple) and x and x[0] == "field" and x[2] in (0, "0") and x[1][0] == "field" and x[1][1][0] == "downcast" and x[1][1][2] == "Some"
                               for x in walk_expr(m.args[1]))
                fresh = pathq.mentions_call(m.args[1], lambda x: short(x[1]) in ("new", "default", "new_v4")) is not None
                returns_it = p.ret is not None and any(isinstance(x, tuple) and x and x[0] == "havoc" for x in walk_expr(p.ret))
                ok = item_msg is not None and item_msg == item_key and key_is_0 and not fresh and returns_it
                why = "label is the key of the same queue item=%s, not a fresh id=%s, labelled message returned=%s" % (item_msg is not None and item_msg == item_key and key_is_0, not fresh, returns_it)
            rep.check(ok, "R09.1", "R09.1|label-with-sender", "ROUTER recv prefixes the message with the identity of the connection it arrived on (%s; other mutations %s)" % (why, other), co.loc())
        rep.floor("R09.1", "Ok exits of ROUTER recv", n, 1)
    co = socket_coroutine(f, "SocketSend", "send", "RouterSocket")
    if co is None:
        rep.bad("R09.2", "R09.2|anchor", "RouterSocket::send not found (anchor-missing)")
    else:
        nw = nmiss = 0
        for p in pathq.paths(f, co, inline_async=True):
            ww = wire_writes(p)
            for i, ev in ww:
                nw += 1
                looked = pathq.mentions_call(ev.args[0], lambda x: short(x[1]) == "get_async" and not x[1].endswith("}"))
                hit = False
                key_ok = False
                if looked is not None:
                    key = looked[2][1]
                    pop = pathq.mentions_call(key, lambda x: short(x[1]) == "pop_front")
                    conv = pathq.mentions_call(key, lambda x: short(x[1]) in ("try_into", "try_from"))
                    # the key is the popped first frame passed through the checked conversion and nothing else
                    key_ok = pop is not None and conv is not None and is_param_msg(pop[2][0]) and \
                        pathq.only_calls(key, ("pop_front", "unwrap", "expect", "try_into", "try_from", "branch", "clone", "into", "from", "as_ref", "borrow"))
                    hit = any(e[0] == "discr" and c == ("eq", 1) and pathq.mentions_call(e[1], lambda x: x == looked) is not None for (e, c, _, _) in p.conds[:ev.ncond])
                item = ev.args[1]
                rest = item[0] == "agg" and item[3] == "Message" and is_param_msg(item)
                pops = [m for _, m in msg_mutations(p, is_param_msg, upto=i) if short(m.name) == "pop_front"]
                others = [short(m.name) for _, m in msg_mutations(p, is_param_msg, upto=i) if short(m.name) != "pop_front"]
                rep.check(key_ok and hit and rest and len(pops) == 1 and not others, "R09.2", "R09.2|route-by-first-frame",
                          "ROUTER writes the remaining frames only to the entry found under the identity made from the popped first frame "
                          "(key from pop_front+try_into=%s, on the Some arm=%s, writes the caller's message=%s, pops=%d, other mutations=%s)" % (key_ok, hit, rest, len(pops), others), co.loc(ev.bb))
            if p.end == "return" and not ww:
                # no write happened on this path: it must not report success
                looked_none = any(e[0] == "discr" and c == ("eq", 0) and pathq.mentions_call(e[1], lambda x: short(x[1]) == "get_async") is not None and
                                  e[1][0] in ("field", "downcast") for (e, c, _, _) in p.conds)
                rk = pathq.ret_kind(p)
                if looked_none:
                    nmiss += 1
                rep.check(rk == "Err", "R09.2", "R09.2|no-write-no-success",
                          "a ROUTER send that wrote nothing (unknown identity, invalid identity frame) returns Err (returns %s; lookup miss=%s)" % (rk, looked_none), co.loc())
        rep.floor("R09.2", "wire writes on ROUTER send paths", nw, 1)
        rep.floor("R09.2", "lookup-miss exits of ROUTER send", nmiss, 1)
    # R09.3 / R09.4: re-evaluate the provenance rules of C04 and C01
    from . import c04, c01
    sub = Report("C09", rep.config)
    c04.check_identity(f, sub)
    c04.check_gate(f, sub)
    c04.check_registration(f, sub)
    c04.check_ready(f, sub)
    for o in sub.obls:
        if o.rule in ("R04.3", "R04.4") or "identity-provenance" in o.key or "registration-callers" in o.key or "|ready|identity-" in o.key:
            (rep.ok if o.ok else rep.bad)("R09.3", o.key.replace(o.rule, "R09.3", 1), o.what, o.loc, o.detail)
    sub = Report("C09", rep.config)
    c01.check_ready(f, sub)
    for o in sub.obls:
        if "identity" in o.key:
            (rep.ok if o.ok else rep.bad)("R09.4", o.key.replace(o.rule, "R09.4", 1), o.what, o.loc, o.detail)
