"""C16 - a failed or closed peer is isolated and forgotten (structural clauses).

Decides: (R16.1) in each of the six queue-based recv impls the arm for (peer, Err(_)) calls
MultiPeerBackend::peer_disconnected with the key of that very item before it returns or loops, and the backend
that call resolves to removes BOTH the peer-table entry (write half) and the peer's stream in the receive queue
(a stream that yielded an error is re-queued by the fair queue and FramedRead repeats an EOF-inside-a-frame
error forever: "at most one error", "never spins"); (R16.2) when a peer's stream ends (Ready(None) in the fair
queue) something must convey that peer's key to the backend so that its table entry is released - today's
tree has no such mechanism: KNOWN FINDING F16d; (R16.3) a failed write forgets the peer: round-robin senders
(C10 R10.3 re-evaluated), REQ send (entry removed) and REQ recv (entry removed on end-of-stream and on error),
PUB reader task (peer_disconnected on None and on Err), PUB/XPUB send (every peer marked dead is passed to
peer_disconnected), SUB connect path (a connection that failed while the subscriptions were announced to it is never
registered: C13 R13.1 re-evaluated); (R16.4) every peer_disconnected impl removes the table entry keyed by its argument
and forgets *only* that peer (no bulk operation on a shared container; QueueInner::remove removes that key's stream only);
(R16.5) a leftover ready event of a removed peer is skipped, never turned into Pending, and the others' queued events and
ticket order are never disturbed (C06 R06.1 / R06.5 re-evaluated).
Does NOT decide descriptor counts, kernel-level release or "other peers unaffected" at run time."""
from ..sym import show, walk_expr
from ..common import short, trait_impls, coroutine_of, strip_view
from .. import pathq
from . import names
from ..report import Report
from . import fq, tables
from .c07 import socket_coroutine, wire_writes

EXPLANATION = __doc__
NOT_DECIDED = "open-descriptor counts, kernel release of the transport, run-time isolation of other peers"
ASSUMPTIONS = ["dropping the scc entry drops the FramedWrite and with it the transport's write half; dropping the boxed stream drops the read half",
               "asynchronous-codec FramedRead repeats 'bytes remaining in stream' after EOF inside a frame (read in its source)"]
RULES = {
    "R16.1": "recv error arm -> peer_disconnected(key of the item); that backend removes table entry AND queued stream",
    "R16.2": "end-of-stream in the fair queue conveys the peer's key to the backend (release of the write half)",
    "R16.3": "failed/ended connection forgotten on the send side: round-robin, REQ send/recv, PUB reader, PUB/XPUB send",
    "R16.4": "every peer_disconnected impl removes the table entry of its argument",
    "R16.5": "leftover ready event of a removed peer is skipped (C06 R06.1)",
    "R16.F": "foundation clauses re-evaluated as necessary conditions: " + ", ".join(['identity', 'wakeup']),
}


def analyse_disconnect_impls(f, rep):
    impls = trait_impls(f, "MultiPeerBackend", "peer_disconnected")
    rep.floor("R16.4", "peer_disconnected impls", len(impls), 6)
    info = {}
    for ty, b in sorted(impls.items()):
        removes_table = False
        removes_stream = False
        has_queue = any(a for p_, a in f.adts.items() if p_.endswith("::" + ty.split("::")[-1]) and any(fq.inner_name(f) in x["ty"] for x in a["variants"][0]["fields"]))
        for p in pathq.paths(f, b):
            if p.end != "return":
                continue
            t = [ev for i, ev in pathq.calls(p, "remove_sync", "remove_async", "remove", "remove_entry", "remove_if_sync") if "scc::" in ev.name and len(ev.args) > 1 and ev.args[1] == ("arg", 2)]
            s = [ev for i, ev in pathq.calls(p, "remove") if fq.inner_name(f) in ev.name and len(ev.args) > 1 and ev.args[1] == ("arg", 2)]
            removes_table = bool(t)
            # the stream removal may be guarded by `if let Some(inner)`: it must happen on the Some path
            q_none = any(e[0] == "discr" and c == ("eq", 0) and any(isinstance(x, tuple) and x and x[0] == "field" and fq.inner_name(f) in str(x[3]) for x in walk_expr(e[1])) for (e, c, _, _) in p.conds)
            if has_queue and not q_none:
                removes_stream = bool(s)
                rep.check(bool(s), "R16.1", "R16.1|%s|removes-queued-stream" % ty,
                          "%s::peer_disconnected removes the peer's stream from the receive queue (otherwise the errored stream is polled again and again)" % ty, b.loc())
            rep.check(bool(t), "R16.4", "R16.4|%s|removes-table-entry" % ty, "%s::peer_disconnected removes the peer-table entry of its argument" % ty, b.loc())
        info[ty] = {"table": removes_table, "stream": removes_stream or not has_queue, "has_queue": has_queue}
        # ... and it forgets *only* that peer: no bulk change of a shared container (table, rotation, receive queue) on this path
        BULK = ("clear", "clear_sync", "clear_async", "retain", "retain_sync", "retain_async", "drain", "truncate", "pop", "pop_front", "pop_back",
                "prune_sync", "prune_async", "iter_mut_sync", "iter_mut_async", "remove_if_sync", "remove_if_async")
        bulk = sorted({fn["name"] for k in pathq.scope(f, b) for bb, t2, fn in k.calls()
                       if fn and fn["name"] in BULK and any(c_ in fn["path"] for c_ in ("scc::", "HashMap", "SegQueue", "BinaryHeap", "VecDeque", "Vec<", "vec::Vec"))})
        rep.check(not bulk, "R16.4", "R16.4|%s|forgets-only-that-peer" % ty,
                  "%s::peer_disconnected changes the shared containers only by keyed removal of its argument (bulk operations: %s)" % (ty, bulk), b.loc())
    # the same for the receive queue's own remove(key)
    for qb in [b2 for b2 in f.bodies if b2.j.get("name") == "remove" and fq.inner_name(f) in b2.path and b2.kind == "AssocFn"]:
        # (reads - a length for a log line, a lookup - change nothing)
        READS = ("len", "is_empty", "contains_key", "contains", "get", "iter", "keys", "values", "capacity", "peek")
        ops = sorted({fn["name"] for k in pathq.scope(f, qb) for bb, t2, fn in k.calls() if fn and any(c_ in fn["path"] for c_ in ("HashMap", "BinaryHeap", "Vec"))
                      and fn["name"] not in READS})
        rep.check(ops == ["remove"], "R16.4", "R16.4|queue-remove|forgets-only-that-peer",
                  "QueueInner::remove(key) only removes that key's stream (container operations: %s): the other peers' streams and queued wake-ups stay" % ops, qb.loc())
    return info


def check_failed_announce(ctx, f, rep):
    """R16.3 (SUB connect path): a connection that failed while the subscriptions were announced to it is never registered
    (C13 R13.1 failed-announce-not-registered, re-evaluated): the socket must not route later traffic to it."""
    from . import c13
    from ..report import Report
    sub = Report("C16", rep.config)
    c13.run(ctx, f, sub)
    n = 0
    for o in sub.obls:
        if "failed-announce-not-registered" in o.key:
            n += 1
            (rep.ok if o.ok else rep.bad)("R16.3", o.key.replace("R13.1", "R16.3", 1), o.what, o.loc, o.detail)
    rep.floor("R16.3", "SUB registering paths examined for a failed announcement", n, 1)


DEPENDS = ['identity', 'wakeup']     # foundation groups re-evaluated as necessary conditions (rules/found.py)


def check_pub_reader(f, rep):
    """R16.3 (PUB reader task): forgets its peer when, and only when, the subscriber's stream ended or failed"""
    # PUB reader task
    for ty, outer in trait_impls(f, "MultiPeerBackend", "peer_connected").items():
        if ty.split("::")[-1] != names.of(f, "PubSocketBackend"):
            continue
        co = coroutine_of(f, outer)
        readers = [k for k in f.children(co) if k.j.get("coroutine_kind")]
        rep.floor("R16.3", "PUB reader task", len(readers), 1)
        for rd in readers:
            seen = {"none": 0, "err": 0}
            for p in pathq.paths(f, rd, max_visits=2):
                if p.end != "return":
                    continue
                dis = [ev for i, ev in pathq.calls(p, "peer_disconnected")]
                # which arm ended the task: last decisions on the select result payload
                kind = None
                for (e, c, _, _) in p.conds:
                    if e[0] == "discr" and c[0] == "eq" and e[1][0] == "field" and e[1][1][0] == "downcast" and isinstance(e[1][1][2], str) and e[1][1][2].startswith("_") and e[1][1][2][1:].isdigit():
                        kind = ("none" if c[1] == 0 else "some", e[1][1][2])
                    if kind and kind[0] == "some" and e[0] == "discr" and c[0] == "eq" and e[1][0] == "field" and e[1][1][0] == "downcast" and e[1][1][2] == "Some":
                        kind = ("err" if c[1] == 1 else "ok", kind[1])
                if kind and kind[0] in ("none", "err") and dis is not None:
                    # only the receive arm carries an Option<Result<..>>; the stop arm carries a oneshot result
                    if any("message_received" in ev.name for ev in p.events if ev.kind == "call"):
                        pass
                    seen[kind[0]] += 1 if dis else 0
            # ... and ONLY then: a reader stopped through its stop channel belongs to an entry that was replaced (same identity, new
            # connection) or removed already - disconnecting by identity there would remove the *new* connection's entry
            for p in pathq.paths(f, rd, max_visits=2):
                if p.end != "return":
                    continue
                dis = [ev for i, ev in pathq.calls(p, "peer_disconnected")]
                recv_end = False
                for (e, c, _, _) in p.conds:
                    if e[0] == "discr" and c[0] == "eq" and e[1][0] == "field" and e[1][1][0] == "downcast" and isinstance(e[1][1][2], str) and \
                            e[1][1][2].startswith("_") and e[1][1][2][1:].isdigit() and "Option<" in str(e[1][3] if len(e[1]) > 3 else "") and "Message" in str(e[1][3] if len(e[1]) > 3 else ""):
                        if c[1] == 0:
                            recv_end = True
                    if e[0] == "discr" and c == ("eq", 1) and e[1][0] == "field" and e[1][1][0] == "downcast" and e[1][1][2] == "Some" and "Result<" in str(e[1][3] if len(e[1]) > 3 else ""):
                        recv_end = True
                if dis and not recv_end:
                    rep.bad("R16.3", "R16.3|PUB-reader|disconnects-only-on-stream-end",
                            "the PUB reader task calls peer_disconnected on a path where the subscriber's stream neither ended nor failed (stopped through its stop channel): "
                            "it would remove the entry of the connection that replaced it", rd.loc(dis[0].bb))
            if not any("disconnects-only-on-stream-end" in o.key and not o.ok for o in rep.obls):
                rep.ok("R16.3", "R16.3|PUB-reader|disconnects-only-on-stream-end", "the PUB reader task disconnects its peer only when the stream ended or failed, not when it is stopped", rd.loc())
            rep.check(seen["none"] > 0 and seen["err"] > 0, "R16.3", "R16.3|PUB-reader|forgets-peer",
                      "the PUB reader task calls peer_disconnected when the subscriber's stream ends (%d paths) and when it fails (%d paths)" % (seen["none"], seen["err"]), rd.loc())


def run(ctx, f, rep):
    from . import found
    found.import_groups(ctx, f, rep, 'C16', DEPENDS)
    check_failed_announce(ctx, f, rep)
    info = analyse_disconnect_impls(f, rep)
    # ---- R16.1 recv error arms
    recvs = trait_impls(f, "SocketRecv", "recv")
    n6 = 0
    for ty, outer in sorted(recvs.items()):
        co = coroutine_of(f, outer)
        if co is None:
            continue
        uses_queue = any(fn and fn["name"] == "next" and any("FairQueue" in a for a in fn.get("args", [])) for bb, t, fn in co.calls())
        if not uses_queue:
            continue
        n6 += 1
        narm = 0
        for p in pathq.paths(f, co, max_visits=2, inline_async=True):
            nexts = [ev for i, ev in pathq.calls(p, "next") if "StreamExt" in ev.name or "stream" in ev.name]
            if not nexts:
                continue
            bounds = [ev.ncond for ev in nexts] + [len(p.conds)]
            for j in range(len(nexts)):
                conds = p.conds[bounds[j]:bounds[j + 1]]
                err_item = None
                for (e, c, _, _) in conds:
                    if e[0] == "discr" and c == ("eq", 1) and e[1][0] == "field" and e[1][2] in (1, "1") and e[1][1][0] == "field" and e[1][1][1][0] == "downcast" and e[1][1][1][2] == "Some":
                        err_item = e[1][1]      # (item as Some).0
                if err_item is None:
                    continue
                narm += 1
                # events of this iteration
                lo = p.events.index(nexts[j])
                hi = p.events.index(nexts[j + 1]) if j + 1 < len(nexts) else len(p.events)
                calls = [ev for ev in p.events[lo:hi] if ev.kind == "call" and short(ev.name) == "peer_disconnected" and ev.extra != "inlined"]
                ok = False
                tgt = None
                if calls:
                    k = calls[0].args[1] if len(calls[0].args) > 1 else None
                    # the argument IS the key (field .0) of the item that carried the error (through borrows / clones only)
                    kk = strip_view(k) if k is not None else None
                    same_item = kk is not None and kk[0] == "field" and kk[1] == err_item and kk[2] in (0, "0")
                    ok = same_item
                    r = (calls[0].fn or {}).get("resolved") or {}
                    tgt = r.get("path")
                rep.check(ok, "R16.1", "R16.1|%s|error-arm-disconnects" % ty,
                          "%s::recv: when a peer's stream yields an error the peer (key of that item) is passed to peer_disconnected before recv returns or loops (calls in the arm: %d)" % (ty, len(calls)), co.loc())
                if tgt:
                    bt = None
                    for t2 in info:
                        if t2 in tgt:
                            bt = t2
                    if bt:
                        rep.check(info[bt]["table"] and info[bt]["stream"], "R16.1", "R16.1|%s|backend-releases-both-halves" % ty,
                                  "%s::recv's error arm reaches %s::peer_disconnected, which removes the table entry (%s) and the queued stream (%s)" % (ty, bt, info[bt]["table"], info[bt]["stream"]), co.loc())
        rep.floor("R16.1", "%s: error-arm iterations on paths" % ty, narm, 1)
    rep.floor("R16.1", "queue-based recv impls", n6, 6)
    # ---- R16.2 end-of-stream conveys the key
    ipath, iadt, names = fq.inner_adt(f)
    polls = fq.poll_next_body(f, ipath) if ipath else []
    rep.floor("R16.2", "fair queue poll_next", len(polls), 1)
    for b in polls:
        conveyed = 0
        ended_paths = 0
        for p in pathq.paths(f, b, max_visits=2):
            inner = [(i, ev) for i, ev in enumerate(p.events) if ev.kind == "call" and short(ev.name) in fq.INNER_POLL]
            for (i, ev) in inner:
                pr = ev.result
                none_arm = any(e[0] == "discr" and c == ("eq", 0) and e[1][0] == "field" and e[1][1][0] == "downcast" and e[1][1][1] == pr for (e, c, _, _) in p.conds)
                if not none_arm:
                    continue
                ended_paths += 1
                nxt = [k for k, e2 in inner if k > i]
                seg = p.events[i + 1:(nxt[0] if nxt else len(p.events))]
                # anything that records / hands out the key of the ended stream (a push to a list of ended peers, a callback,
                # an item returned for it); re-locking and dropping the guard do not count
                pops = [e2 for e2 in p.events[:i] if e2.kind == "call" and short(e2.name) == "pop" and "BinaryHeap" in e2.name]
                this_pop = pops[-1].result if pops else None
                tells = [e2 for e2 in seg if e2.kind == "call" and e2.extra != "inlined" and short(e2.name) not in ("lock", "deref", "deref_mut", "clone", "drop", "waker", "pop", "is_empty", "get_mut") and
                         this_pop is not None and any(any(y == this_pop for y in walk_expr(a)) for a in (e2.args or ()))]
                ret_tells = p.end == "return" and p.ret is not None and not nxt and this_pop is not None and any(y == this_pop for y in walk_expr(p.ret))
                if tells or ret_tells:
                    conveyed += 1
        rep.floor("R16.2", "Ready(None) arms on poll_next paths", ended_paths, 1)
        rep.check(ended_paths > 0 and conveyed == ended_paths, "R16.2", "R16.2|fair-queue|end-of-stream-releases-peer",
                  "when a peer's stream ends the queue tells someone which peer it was, so that the backend can release its table entry (write half, transport): "
                  "%d of %d end-of-stream paths convey the key - with none, an orderly close by the peer leaves its entry in the socket forever (PULL/SUB never write to it)" % (conveyed, ended_paths), b.loc())
    # ---- R16.3
    from . import c10
    sub = Report("C16", rep.config)
    c10.run(ctx, f, sub)
    for o in sub.obls:
        if "write-error" in o.key or "skip-not-requeued" in o.key or "push-after-lookup" in o.key:
            (rep.ok if o.ok else rep.bad)("R16.3", o.key.replace("R10.3", "R16.3", 1), o.what, o.loc, o.detail)
    # REQ recv: entry removed on end-of-stream and on error
    co = socket_coroutine(f, "SocketRecv", "recv", "ReqSocket")
    if co is None:
        rep.bad("R16.3", "R16.3|REQ-recv|anchor", "ReqSocket::recv not found (anchor-missing)")
    else:
        seen = {"none": 0, "err": 0}
        for p in pathq.paths(f, co, inline_async=True):
            if p.end != "return":
                continue
            polls_ = [ev for ev in p.events if pathq.is_poll(ev) and "Next" in ev.name]
            if not polls_:
                continue
            r = polls_[-1].result
            kind = None
            for (e, c, _, _) in p.conds:
                if e[0] == "discr" and e[1][0] == "field" and e[1][1][0] == "downcast" and e[1][1][1] == r and e[1][1][2] == "Ready" and c[0] == "eq":
                    kind = "none" if c[1] == 0 else "some"
                if kind == "some" and e[0] == "discr" and c[0] == "eq" and e[1][0] == "field" and e[1][1][0] == "downcast" and e[1][1][2] == "Some" and pathq.mentions_call(e[1], lambda y: y == r) is not None:
                    kind = "err" if c[1] == 1 else "ok"
            if kind in ("none", "err"):
                seen[kind] += 1
                rem = [ev for i, ev in pathq.calls(p, "remove_entry", "remove", "remove_sync", "remove_async", "peer_disconnected") if "scc" in ev.name or "OccupiedEntry" in ev.name or "peer_disconnected" in ev.name]
                rep.check(bool(rem), "R16.3", "R16.3|REQ-recv|forgets-peer|%s" % kind,
                          "REQ recv forgets the peer when its connection %s (removals on the path: %s)" % ("ended" if kind == "none" else "failed", [short(e.name) for e in rem]), co.loc())
        rep.floor("R16.3", "REQ recv: end-of-stream and error exits", len([k for k, v in seen.items() if v]), 2)
    check_pub_reader(f, rep)
    # PUB/XPUB send: every dead peer is passed to peer_disconnected
    for suffix, label in (("r#pub::PubSocket", "PUB send"), ("xpub::XPubSocket", "XPUB send")):
        co = socket_coroutine(f, "SocketSend", "send", suffix)
        if co is None:
            rep.bad("R16.3", "R16.3|%s|anchor" % label, "%s not found" % label)
            continue
        ok = False
        for p in pathq.paths(f, co, max_visits=2, inline_async=True):
            for i, ev in pathq.calls(p, "peer_disconnected"):
                k = ev.args[1] if len(ev.args) > 1 else None
                if k is not None and pathq.mentions_call(k, lambda y: short(y[1]) == "next" and "IntoIter" in y[1]) is not None:
                    ok = True
        rep.check(ok, "R16.3", "R16.3|%s|dead-peers-disconnected" % label, "%s passes every subscriber it marked dead (BrokenPipe) to peer_disconnected" % label, co.loc())
    # ---- R16.5
    from . import c06
    sub = Report("C16", rep.config)
    c06.run(ctx, f, sub)
    for o in sub.obls:
        if o.rule in ("R06.1", "R06.5"):
            # R06.5: forgetting one peer must not discard the queued wake-ups of the others ("traffic with all other peers continues")
            (rep.ok if o.ok else rep.bad)("R16.5", o.key.replace(o.rule, "R16.5", 1), o.what, o.loc, o.detail)
