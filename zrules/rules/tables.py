"""Table extraction: enum <-> name tables from `as_str` (writer) and `TryFrom<&[u8]>` / `FromStr` (reader)."""
from ..sym import Sym, show, walk_expr
from ..common import short


def adt_fields(f, adt_path):
    a = f.adts.get(adt_path)
    if not a:
        return []
    return [fl["name"] for fl in a["variants"][0]["fields"]]


def adt_by_suffix(f, suffix):
    for p, a in f.adts.items():
        if p.endswith("::" + suffix) or p == suffix:
            return a
    # the type's own name, whatever module it was moved to
    for p, a in f.adts.items():
        if p.split("::")[-1] == suffix.split("::")[-1]:
            return a
    return None


def variant_by_discr(adt, d):
    for i, v in enumerate(adt["variants"]):
        dv = v["discr"] if v["discr"] is not None else i
        if dv == d:
            return v["name"]
    return None


def const_str(e):
    """text of a string / byte-string constant expression"""
    if isinstance(e, tuple) and e and e[0] == "const":
        t = e[1]
        if t.startswith("const "):
            t = t[6:]
        if t.startswith('b"') and t.endswith('"'):
            return t[2:-1]
        if t.startswith('"') and t.endswith('"'):
            try:
                import ast
                v = ast.literal_eval(t)
                if isinstance(v, str):
                    return v
            except Exception:
                pass
            return t[1:-1]
    return None


def writer_table(f, body):
    """variant name -> string, from the paths of an `as_str`-like function."""
    sym = Sym(f)
    out = {}
    adt = None
    for p in sym.paths(body):
        if p.end != "return":
            continue
        s = None
        for x in walk_expr(p.ret):
            s = const_str(x)
            if s is not None:
                break
        d = None
        for (e, c, _, _) in p.conds:
            if e[0] == "discr" and c[0] == "eq":
                d = c[1]
        out[d] = s
    return out


def reader_table(f, body):
    """string -> variant name for Ok paths of a byte-slice / str matcher; plus whether a catch-all Err exists."""
    sym = Sym(f, max_visits=2, max_paths=200000)
    table = {}
    has_err = False
    for p in sym.paths(body):
        if p.end != "return" or p.ret is None:
            continue
        r = p.ret
        variant = None
        is_ok = None
        for x in walk_expr(r):
            if isinstance(x, tuple) and x and x[0] == "agg" and x[1] == "adt":
                if x[3] in ("Ok", "Err") and is_ok is None:
                    is_ok = (x[3] == "Ok")
                elif is_ok and variant is None and x[3] not in ("Ok", "Err"):
                    variant = x[3]
        if is_ok is False or (is_ok is None and any(short(e.name) == "from_residual" for e in p.events if e.kind == "call")):
            has_err = True
            continue
        if variant is None:
            continue
        # reconstruct the literal
        length = None
        bytes_ = {}
        lit = None
        for (e, c, _, _) in p.conds:
            if e[0] == "binop" and e[1] == "Eq" and e[3][0] == "int" and e[2][0] == "unop" and e[2][1] == "PtrMetadata" and c in (("notin", (0,)), ("eq", 1)):
                length = e[3][1]
            if e[0] == "cindex" and c[0] == "eq":
                bytes_[e[2]] = c[1]
            if e[0] in ("pure", "call") and short(e[1]) in ("eq",) and c in (("notin", (0,)), ("eq", 1)):
                for a in e[2]:
                    for x in walk_expr(a):
                        s = const_str(x)
                        if s is not None:
                            lit = s
        if lit is None and length is not None and len(bytes_) == length:
            lit = "".join(chr(bytes_[i]) for i in range(length))
        if lit is None:
            lit = "?%s" % sorted(bytes_.items())
        table.setdefault(lit, set()).add(variant)
    return table, has_err


def check_name_table(f, rep, rule, type_suffix, expected, want_reader=True, maxlen=None, names=None):
    """names: variant -> expected string (default: the variant's own name)."""
    adt = adt_by_suffix(f, type_suffix)
    if not adt:
        rep.bad(rule, "%s|%s|adt" % (rule, type_suffix), "enum %s not found (anchor-missing)" % type_suffix)
        return
    variants = [v["name"] for v in adt["variants"]]
    names = names or {v: v for v in variants}
    ws = [b for b in f.bodies if b.j.get("name") == "as_str" and (b.j.get("impl_self") or "").endswith(type_suffix)]
    rep.floor(rule, "%s::as_str" % type_suffix, len(ws), 1)
    wt = {}
    for b in ws:
        raw = writer_table(f, b)
        for d, s in raw.items():
            v = variant_by_discr(adt, d) if d is not None else (variants[0] if len(variants) == 1 else None)
            wt[v] = s
        rep.count("name_table_entries", len(wt))
        for v in variants:
            got = wt.get(v)
            rep.check(got == names.get(v), rule, "%s|%s|writer|%s" % (rule, type_suffix, v),
                      "%s::%s is written as %r (RFC name %r)" % (type_suffix, v, got, names.get(v)), b.loc())
            if maxlen is not None and got is not None:
                rep.check(len(got) <= maxlen and got == got.upper(), rule, "%s|%s|writer-len|%s" % (rule, type_suffix, v),
                          "name %r fits %d bytes and is upper-case" % (got, maxlen), b.loc())
    rep.check(sorted(variants) == sorted(expected), rule, "%s|%s|variants" % (rule, type_suffix),
              "%s variants %s (RFC: %s)" % (type_suffix, variants, expected))
    if not want_reader:
        return
    rs = [b for b in f.bodies if b.j.get("name") in ("try_from", "from_str") and (b.j.get("impl_self") or "").endswith(type_suffix)
          and b.kind == "AssocFn"]
    # keep the one that actually matches bytes/strings (others delegate)
    tabs = []
    for b in rs:
        t, has_err = reader_table(f, b)
        if t:
            tabs.append((b, t, has_err))
    rep.floor(rule, "%s parser with a literal table" % type_suffix, len(tabs), 1)
    for b, t, has_err in tabs:
        inv = {}
        for lit, vs in t.items():
            for v in vs:
                inv.setdefault(v, set()).add(lit)
        for v in variants:
            got = inv.get(v)
            rep.check(got == {names.get(v)}, rule, "%s|%s|reader|%s" % (rule, type_suffix, v),
                      "%s::%s is parsed from %s (writer/RFC: %r)" % (type_suffix, v, sorted(got) if got else None, names.get(v)), b.loc())
        amb = [lit for lit, vs in t.items() if len(vs) > 1]
        rep.check(not amb, rule, "%s|%s|reader-unambiguous" % (rule, type_suffix), "no literal maps to two variants %s" % amb, b.loc())
        rep.check(has_err, rule, "%s|%s|reader-rejects-unknown" % (rule, type_suffix), "unknown names are rejected with Err", b.loc())
    return wt
