"""C04 - handshake admits exactly the well-formed, compatible peers (structural clauses).

Decides: (R04.1) admission gate - registration (MultiPeerBackend::peer_connected, one caller) only on paths
that decided both exchanges Ok; every Ok exit of the READY exchange passed: first item is a Command, Socket-Type
present and parsed, Identity (if present) through PeerIdentity::try_from, compatible(local, peer) == true with the
right operands; every Ok exit of version negotiation passed the Greeting arm and `peer >= mine`; the greeting parser's
Ok requires length 64, both signature bytes and a known mechanism. (R04.2) the compatibility relation, *evaluated* for
all 144 pairs from the function body and the constant table, is total (no assert can fail), symmetric and equal to the
RFC table. (R04.3) identity rule: tuple constructor only on a path with 1 <= len <= 255 (exactly) or in new();
empty -> new(). (R04.4) each backend registers a peer at most once per path, with overwrite semantics, keyed by the
handshake's identity (the scc entry API overwrites only through Entry::insert_entry). (R04.5) accept failure is reported with a
non-blocking try_send(AcceptFailed) to the monitor looked up after the handshake finished; connect propagates.
Does NOT decide that every well-formed peer is eventually admitted, nor uniqueness of generated UUIDs."""
from ..sym import Sym, show, walk_expr, interval_of
from ..facts import callee_name
from ..common import trait_impls, short, coroutine_of, SOCKET_TYPES, rfc_compatible, strip_casts, len_base
from .. import pathq
from . import names
from . import fq as fqmod
from ..oblig import LenFacts, norm_base
from . import tables, hs

EXPLANATION = __doc__
NOT_DECIDED = "liveness of the happy path (every well-formed peer is admitted); freshness/uniqueness of generated identities"
ASSUMPTIONS = ["RFC 28/29/30/31 compatibility table as embedded in zrules/common.py", "scc::HashMap::upsert_* overwrites, insert_* refuses an existing key"]
RULES = {
    "R04.1": "admission gate (must-pass-through on every path to registration / to an Ok exit)",
    "R04.2": "compatible(a, b) evaluated for all 144 pairs: total, symmetric, equal to the RFC table",
    "R04.3": "PeerIdentity constructed only with 1..=255 bytes or by new(); empty -> new()",
    "R04.4": "each backend registers at most once per path, overwrite semantics, key = handshake identity",
    "R04.5": "AcceptFailed reported through try_send; connect propagates the handshake error",
    "R04.F": "foundation clauses re-evaluated as necessary conditions: " + ", ".join(['accept']),
}


def ev_discr(f, e, env):
    """Tiny evaluator for the return expression of `compatible` once discriminants are constants."""
    if e[0] == "int":
        return e[1]
    if e[0] == "cast":
        return ev_discr(f, e[1], env)
    if e[0] == "binop":
        a, b = ev_discr(f, e[2], env), ev_discr(f, e[3], env)
        if a is None or b is None:
            return None
        return {"Ne": int(a != b), "Eq": int(a == b), "Add": a + b, "Mul": a * b, "Lt": int(a < b), "Gt": int(a > b),
                "Le": int(a <= b), "Ge": int(a >= b), "BitAnd": a & b, "BitOr": a | b, "Sub": a - b}.get(e[1])
    if e[0] == "index":
        base, idx = e[1], ev_discr(f, e[2], env)
        arr = const_array(f, base)
        if arr is None or idx is None or idx < 0 or idx >= len(arr):
            return None
        return arr[idx]
    if e[0] == "unop" and e[1] == "Not":
        a = ev_discr(f, e[2], env)
        return None if a is None else int(not a)
    return None


def const_array(f, e):
    if e[0] != "const":
        return None
    name = e[1].replace("const ", "").strip()
    for b in f.bodies:
        if b.kind.startswith("Const") and (b.path.endswith("::" + name) or b.path == name):
            for blk in b.blocks:
                for st in blk["stmts"]:
                    if st["k"] == "assign" and st["rv"]["k"] == "aggregate" and st["rv"]["ak"] == "array":
                        return [o.get("int") for o in st["rv"]["ops"]]
    return None


def check_compat(f, rep):
    bodies = [b for b in f.bodies if b.path.endswith("SocketType::compatible")]
    rep.floor("R04.2", "SocketType::compatible", len(bodies), 1)
    adt = tables.adt_by_suffix(f, "SocketType")
    if not bodies or not adt:
        return
    b = bodies[0]
    adt_path = [p for p in f.adts if f.adts[p] is adt][0]
    variants = [v["name"] for v in adt["variants"]]
    rep.check(sorted(variants) == sorted(SOCKET_TYPES), "R04.2", "R04.2|variants", "SocketType has the 12 ZMTP socket types: %s" % variants)
    rel = {}
    bad_total = []
    for x in variants:
        for y in variants:
            seed = {"(*_1)": ("agg", "adt", adt_path, x, ()), "_2": ("agg", "adt", adt_path, y, ())}
            ps = [p for p in Sym(f).paths(b, seed=seed) if p.end in ("return", "diverge")]
            val = None
            ok = len(ps) == 1 and ps[0].end == "return"
            if ok:
                p = ps[0]
                for ev in p.events:
                    if ev.kind == "assert":
                        c = ev_discr(f, ev.value, None)
                        if c is None or bool(c) != ev.term["expected"]:
                            ok = False
                val = ev_discr(f, p.ret, None)
                if val is None:
                    ok = False
            if not ok:
                bad_total.append((x, y))
            rel[(x, y)] = bool(val) if val is not None else None
            rep.count("compat_pairs_evaluated")
    rep.check(not bad_total, "R04.2", "R04.2|total", "compatible(a, b) is defined without failure for all %d pairs (failing: %s)" % (len(rel), bad_total[:6]), b.loc())
    asym = [(x, y) for (x, y), v in rel.items() if v is not None and rel.get((y, x)) is not None and v != rel[(y, x)]]
    rep.check(not asym, "R04.2", "R04.2|symmetric", "compatible is symmetric (asymmetric pairs: %s)" % asym[:6], b.loc())
    for (x, y), v in sorted(rel.items()):
        if v is None:
            continue
        want = rfc_compatible(x, y)
        rep.check(v == want, "R04.2", "R04.2|pair|%s|%s" % (x, y), "compatible(%s, %s) = %s, RFC says %s" % (x, y, v, want), b.loc())


def check_identity(f, rep):
    ctor_sites = {}
    for b in f.bodies:
        for blk in b.blocks:
            if blk["cleanup"]:
                continue
            for st in blk["stmts"]:
                if st["k"] == "assign" and st["rv"]["k"] == "aggregate" and st["rv"]["ak"] == "adt" and st["rv"]["adt"].split("::")[-1] == "PeerIdentity":
                    ctor_sites.setdefault(b.path, 0)
                    ctor_sites[b.path] += 1
    rep.floor("R04.3", "PeerIdentity tuple-constructor sites", len(ctor_sites), 2)
    tf = [b for b in f.bodies if b.j.get("name") == "try_from" and (b.j.get("impl_self") or "").endswith("PeerIdentity")]
    main = None
    for b in tf:
        if b.path in ctor_sites:
            main = b
    for owner in ctor_sites:
        ob = f.body(owner)
        derived_clone = ob is not None and (ob.j.get("impl_trait") or "").endswith("clone::Clone")
        ok = owner.endswith("PeerIdentity::new") or (main is not None and owner == main.path) or derived_clone
        rep.check(ok, "R04.3", "R04.3|ctor-site|%s" % owner, "PeerIdentity(..) is constructed in %s (allowed: new() and the length-checked TryFrom<Bytes>)" % owner)
    if main is None:
        rep.bad("R04.3", "R04.3|try_from-anchor", "TryFrom<Bytes> for PeerIdentity constructing the identity not found (anchor-missing)")
        return
    # MAX_LENGTH
    seen = {"ctor": 0, "new": 0, "err": 0}
    for p in pathq.paths(f, main):
        if p.end != "return" or p.ret is None:
            continue
        key = (norm_base(("arg", 1)), 0)
        lf = LenFacts(p.conds, key)
        r = p.ret
        inner = r[4][0] if r[0] == "agg" and r[4] else None
        if r[0] == "agg" and r[3] == "Ok" and inner is not None and inner[0] == "agg" and (inner[2] or "").endswith("PeerIdentity"):
            seen["ctor"] += 1
            rep.check(lf.iv.lo == 1 and lf.iv.hi == 255, "R04.3", "R04.3|announced-length",
                      "an announced identity is accepted verbatim exactly for lengths %s (RFC: 1..=255)" % lf.iv, main.loc())
            rep.check(inner[4] and norm_base(inner[4][0]) == ("arg", 1), "R04.3", "R04.3|announced-verbatim", "the stored identity is the announced bytes: %s" % show(inner), main.loc())
        elif r[0] == "agg" and r[3] == "Ok" and inner is not None and inner[0] in ("call", "pure") and short(inner[1]) in ("new", "default"):
            seen["new"] += 1
            rep.check(lf.iv.hi == 0, "R04.3", "R04.3|empty-gets-fresh", "a fresh identity is generated exactly for the empty announcement (length %s)" % lf.iv, main.loc())
        elif (r[0] == "agg" and r[3] == "Err") or pathq.ret_kind(p) == "Err":       # `return Err(..)` or `check(..)?`
            seen["err"] += 1
            rep.check(lf.iv.lo == 256, "R04.3", "R04.3|oversize-rejected", "Err is returned exactly for lengths %s (RFC: >= 256)" % lf.iv, main.loc())
        else:
            rep.bad("R04.3", "R04.3|unknown-exit", "unrecognised exit of the identity conversion: %s" % show(r)[:80], main.loc())
    rep.floor("R04.3", "identity conversion exits (verbatim, fresh, error)", len([k for k, v in seen.items() if v]), 3)


def version_decision(p):
    """(greeting arm decided, peer >= mine decided, text) from the decisions of a path (the comparison may sit in a helper that
    was looked through)."""
    greeting_arm = False
    cmp_ok = False
    txt = None
    for (e, c, _, _) in p.conds:
        if e[0] == "discr" and c == ("eq", 0) and "Message" in str(e[2] if len(e) > 2 else "") and "Option" not in str(e[2]) and "Result" not in str(e[2]):
            greeting_arm = True
        t = pathq.truth(c)
        if e[0] in ("pure", "call") and short(e[1]) in ("ge", "le", "gt", "lt") and t is not None and len(e[2]) == 2:
            op = short(e[1])
            a, bb = e[2]
            a_mine = pathq.mentions_call(a, lambda x: short(x[1]) == "default") is not None
            b_mine = pathq.mentions_call(bb, lambda x: short(x[1]) == "default") is not None
            a_peer = not a_mine and any(isinstance(x, tuple) and x and x[0] == "field" and x[2] == "version" for x in walk_expr(a))
            b_peer = not b_mine and any(isinstance(x, tuple) and x and x[0] == "field" and x[2] == "version" for x in walk_expr(bb))
            txt = "%s(%s, %s) == %s" % (op, "peer" if a_peer else ("mine" if a_mine else "?"), "peer" if b_peer else ("mine" if b_mine else "?"), t)
            if a_peer and b_mine:
                cmp_ok = (op == "ge" and t) or (op == "lt" and not t)
            elif a_mine and b_peer:
                cmp_ok = (op == "le" and t) or (op == "gt" and not t)
    return greeting_arm, cmp_ok, txt


def check_version(f, rep):
    nv = [b for b in [f.body(hs.anchors(f).get("negotiate"))] if b is not None]
    rep.floor("R04.1", "version negotiation function (found by signature)", len(nv), 1)
    for b in nv:
        for p in pathq.paths(f, b):
            if p.end != "return" or pathq.ret_kind(p) != "Ok":
                continue
            g, cmp_ok, txt = version_decision(p)
            rep.check(g, "R04.1", "R04.1|version|greeting-arm", "version accepted only for a Greeting item", b.loc())
            rep.check(cmp_ok, "R04.1", "R04.1|version|peer-ge-mine", "version accepted only when peer >= mine (found: %s)" % txt, b.loc())
    # greeting parser
    gp = [b for b in f.bodies if b.j.get("name") == "try_from" and (b.j.get("impl_self") or "").endswith("ZmqGreeting")]
    rep.floor("R04.1", "greeting parser", len(gp), 1)
    for b in gp:
        n = 0
        for p in pathq.paths(f, b):
            if p.end != "return" or pathq.ret_kind(p) != "Ok":
                continue
            n += 1
            key = (norm_base(("arg", 1)), 0)
            lf = LenFacts(p.conds, key)
            sig = {}
            for (e, c, _, _) in p.conds:
                t = pathq.truth(c)
                if t is None or e[0] != "binop" or e[1] not in ("Eq", "Ne") or e[3][0] != "int":
                    continue
                idx = [x for x in walk_expr(e[2]) if isinstance(x, tuple) and x and x[0] == "index" and x[2][0] == "int"]
                if idx:
                    eq = t if e[1] == "Eq" else (not t)
                    if eq:
                        sig[idx[0][2][1]] = e[3][1]
            for (e, c, _, _) in p.conds:
                # the byte matched against a literal pattern (`matches!((v[0], v[9]), (0xff, 0x7f))`): a switch on the byte itself
                x = e
                while isinstance(x, tuple) and x and x[0] in ("deref", "cast", "ref"):
                    x = x[1]
                if isinstance(x, tuple) and x and x[0] == "index" and x[2][0] == "int" and c[0] == "eq":
                    sig.setdefault(x[2][1], c[1])
            mech = pathq.ok_decided(p, lambda x: x[0] in ("call", "pure") and short(x[1]) == "try_from" and "ZmqMechanism" in x[1])
            rep.check(lf.iv.lo == 64 and lf.iv.hi == 64, "R04.1", "R04.1|greeting|length", "greeting accepted only with length 64 (path says %s)" % lf.iv, b.loc())
            rep.check(sig.get(0) == 0xFF and sig.get(9) == 0x7F, "R04.1", "R04.1|greeting|signature",
                      "greeting accepted only with signature bytes [0]=0xFF and [9]=0x7F (this Ok path requires %s)" % {k: hex(v) for k, v in sig.items()}, b.loc())
            rep.check(mech, "R04.1", "R04.1|greeting|mechanism", "greeting accepted only with a known mechanism (try_from decided Ok)", b.loc())
        rep.floor("R04.1", "Ok exits of the greeting parser", n, 1)
    ge = [b for b in [hs.co(f, "greet")] if b is not None]
    in_driver = not ge and hs.greeting_in_driver(f)
    if in_driver:
        ge = [hs.co(f, "driver")]       # the driver exchanges the greetings itself
    rep.floor("R04.1", "greeting exchange", len(ge), 1)
    for b in ge:
        n = 0
        for p in (hs.driver_paths(f, b) if in_driver else pathq.paths(f, b)):
            if p.end != "return" or p.ret is None:
                continue
            if pathq.ret_kind(p) == "Err":
                continue
            n += 1
            # the exchange succeeds only through the version decision, taken on the item read from the peer - either here
            # (helper looked through) or as the returned result of a call that takes that item
            g, cmp_ok, txt = version_decision(p)
            via_call = p.ret[0] in ("call", "pure") and p.ret[2] and pathq.mentions_call(p.ret[2][0], lambda x: short(x[1]) in ("next", "poll_next", "poll")) is not None
            item_read = any(pathq.is_poll(ev) and "Next" in ev.name for ev in p.events)
            rep.check((g and cmp_ok and item_read) or via_call, "R04.1", "R04.1|greet-exchange|result",
                      "the greeting exchange succeeds only after `peer version >= mine` was decided on the Greeting item read from the peer (greeting arm %s, %s, item read %s)" % (g, txt, item_read), b.loc())
        rep.floor("R04.1", "non-error exits of the greeting exchange", n, 1)


def check_ready(f, rep):
    re_ = [b for b in [hs.co(f, "ready")] if b is not None]
    rep.floor("R04.1", "READY exchange", len(re_), 1)
    for b in re_:
        n = 0
        for p in pathq.paths(f, b):
            if p.end != "return" or pathq.ret_kind(p) != "Ok":
                continue
            n += 1
            # compatible(local, peer) decided true
            comp = [(e, t) for (e, t) in pathq.decided(p, lambda e: e[0] in ("pure", "call") and short(e[1]) == "compatible")]
            ok = False
            txt = "no compatibility decision on this path"
            for (e, t) in comp:
                recv, arg = e[2][0], e[2][1]
                local = any(isinstance(x, tuple) and x and x[0] == "field" and x[2] in ("socket_type", 1, "1") for x in walk_expr(recv)) or \
                    any(isinstance(x, tuple) and x and x[0] == "arg" for x in walk_expr(recv))
                peer = pathq.mentions_call(arg, lambda x: short(x[1]) == "try_from" and "SocketType" in x[1]) is not None
                local_from_peer = pathq.mentions_call(recv, lambda x: short(x[1]) == "try_from") is not None
                txt = "compatible(%s, %s) == %s" % ("local" if local and not local_from_peer else "?", "peer" if peer else "?", t)
                if t and ((local and not local_from_peer and peer)):
                    ok = True
                # symmetric form compatible(peer, local)
                peer_r = pathq.mentions_call(recv, lambda x: short(x[1]) == "try_from" and "SocketType" in x[1]) is not None
                local_a = any(isinstance(x, tuple) and x and x[0] in ("field", "arg") for x in walk_expr(arg)) and \
                    pathq.mentions_call(arg, lambda x: short(x[1]) == "try_from") is None
                if t and peer_r and local_a:
                    ok = True
            rep.check(ok, "R04.1", "R04.1|ready|compatible", "READY accepted only when compatible(local type, announced type) is true (%s)" % txt, b.loc())
            st_ok = pathq.ok_decided(p, lambda x: x[0] in ("call", "pure") and short(x[1]) == "try_from" and "SocketType" in x[1])
            rep.check(st_ok, "R04.1", "R04.1|ready|socket-type-parsed", "READY accepted only when Socket-Type parsed (try_from decided Ok)", b.loc())
            present = any(e[0] == "discr" and c == ("eq", 1) and pathq.mentions_call(e[1], lambda x: short(x[1]) == "get") is not None and
                          any(tables.const_str(y) == "Socket-Type" for y in walk_expr(e[1])) for (e, c, _, _) in p.conds)
            rep.check(present, "R04.1", "R04.1|ready|socket-type-present", "READY accepted only when the Socket-Type property is present", b.loc())
            # first item is Some(Ok(Command))
            cmd = False
            for (e, c, _, _) in p.conds:
                if e[0] == "discr" and c[0] == "eq" and any(isinstance(x, tuple) and x and x[0] == "downcast" and x[2] == "Ok" for x in walk_expr(e[1])):
                    # discriminant of the Message enum: Command has index 1
                    madt = tables.adt_by_suffix(f, "codec::Message")
                    if madt:
                        names = [v["name"] for v in madt["variants"]]
                        if c[1] < len(names) and names[c[1]] == "Command":
                            cmd = True
            rep.check(cmd, "R04.1", "R04.1|ready|command-item", "READY accepted only when the first post-greeting item is Some(Ok(Command))", b.loc())
            # identity through PeerIdentity::try_from
            # three equivalent shapes: get(..).map(conv).transpose()?.unwrap_or_default()  |  match get(..) { Some(x) => conv(x)?, None => default }
            ident = pathq.mentions_call(p.ret, lambda x: short(x[1]) in ("unwrap_or_default", "unwrap_or_else", "unwrap_or")) is not None
            tr_ok = pathq.ok_decided(p, lambda x: x[0] in ("call", "pure") and short(x[1]) == "transpose")
            conv_results = [ev.result for _, ev in pathq.calls(p, "try_into", "try_from")
                            if ev.fn and ("PeerIdentity" in ev.name or any("PeerIdentity" in a for a in ev.fn.get("args", [])))]
            def conv_call(x):
                return x in conv_results
            def id_prop(x):
                return x[0] in ("call", "pure") and short(x[1]) == "get" and len(x[2]) == 2 and any(tables.const_str(y) == "Identity" for y in walk_expr(x[2][1]))
            converted = pathq.mentions_call(p.ret, conv_call) is not None and pathq.ok_decided(p, conv_call)
            val = p.ret[4][0] if p.ret[0] == "agg" and p.ret[4] else p.ret
            # "absent": an Option derived from get("Identity") (directly, or the transposed Option<PeerIdentity>) decided None
            absent = any(e[0] == "discr" and c == ("eq", 0) and not (e[1][0] in ("call", "pure") and short(e[1][1]) == "branch") and
                         any(isinstance(y, tuple) and y and id_prop(y) for y in walk_expr(e[1])) for (e, c, _, _) in p.conds)
            defaulted = val[0] in ("call", "pure") and short(val[1]) in ("default", "new") and "PeerIdentity" in val[1] and absent
            chain = tr_ok and pathq.mentions_call(val, lambda x: short(x[1]) == "transpose" and
                                                  any(isinstance(y, tuple) and y and id_prop(y) for y in walk_expr(x))) is not None
            # nothing else sits between the property lookup and the conversion (a `.filter(..)` would turn some announced
            # identities into "absent" and hand those peers a generated one)
            def straight(x, depth=0):
                while isinstance(x, tuple) and x and x[0] in ("field", "downcast", "ref", "deref"):
                    x = x[1]
                if not (isinstance(x, tuple) and x and x[0] in ("call", "pure")) or depth > 12:
                    return False
                n_ = short(x[1])
                if n_ == "get":
                    return id_prop(x)
                if n_ in ("cloned", "clone", "copied", "map", "transpose", "branch", "unwrap_or_default", "unwrap_or_else", "unwrap_or", "try_into", "try_from",
                          "as_ref", "into", "from", "to_owned", "as_deref") and x[2]:
                    return straight(x[2][0], depth + 1)
                return False
            if not defaulted:
                rep.check(straight(val), "R04.1", "R04.1|ready|identity-straight-from-property",
                          "the admitted identity comes straight from get(\"Identity\") through the conversion - no filter or other adaptor in between: %s" % show(val)[:90], b.loc())
            rep.check((ident and tr_ok) or chain or converted or defaulted, "R04.1", "R04.1|ready|identity-checked",
                      "the admitted identity is the checked conversion of the Identity property or a default "
                      "(transpose()? decided Ok: %s; conversion decided Ok: %s; default when absent: %s)" % (ident and tr_ok, converted, defaulted), b.loc())
        rep.floor("R04.1", "Ok exits of the READY exchange", n, 1)
        # the closure converting the Identity property goes through PeerIdentity's TryFrom
        conv = False
        for k in pathq.scope(f, b):
            if k.kind == "Closure":
                for bb, t, fn in k.calls():
                    if fn and fn["name"] in ("try_into", "try_from") and any("PeerIdentity" in a for a in fn.get("args", [])):
                        conv = True
            for bb, t, fn in k.fn_values():      # `.map(PeerIdentity::try_from)`: the conversion passed as a function item
                if fn["name"] in ("try_into", "try_from") and ("PeerIdentity" in callee_name(fn) or any("PeerIdentity" in a for a in fn.get("args", []))):
                    conv = True
        rep.check(conv, "R04.1", "R04.1|ready|identity-conversion", "the Identity property is converted with PeerIdentity's checked TryFrom (length rule R04.3)", b.loc())


def check_gate(f, rep):
    callers = {}
    for b in f.bodies:
        for bb, t, fn in b.calls():
            if fn and fn["name"] == "peer_connected" and (fn.get("trait") or "").endswith("MultiPeerBackend"):
                callers.setdefault(b.path, []).append(bb)
    drv = hs.co(f, "driver")
    rep.check(drv is not None and list(callers) == [drv.path],
              "R04.1", "R04.1|registration-callers", "MultiPeerBackend::peer_connected (registration) is called only by the handshake driver: %s" % sorted(callers))
    for path in callers:
        b = f.body(path)
        n = 0
        for p in (hs.driver_paths(f, b) if drv is not None and b.path == drv.path else pathq.paths(f, b)):
            for i, ev in pathq.calls(p, "peer_connected"):
                if not (ev.fn and (ev.fn.get("trait") or "").endswith("MultiPeerBackend")):
                    continue
                n += 1
                g = pathq.ok_decided(p, lambda x: hs.is_poll_of_role(f, x, "greet"), ev.ncond)
                in_driver = hs.greeting_in_driver(f)
                if in_driver:
                    # no separate greeting exchange: the version decision on the Greeting item read from the peer gates the path
                    pre = type("Prefix", (), {"conds": p.conds[:ev.ncond]})()
                    g_, cmp_ok, _txt = version_decision(pre)
                    g = g_ and cmp_ok and any(pathq.is_poll(e2) and "Next" in e2.name for e2 in p.events[:i])
                r = pathq.ok_decided(p, lambda x: hs.is_poll_of_role(f, x, "ready"), ev.ncond)
                rep.check(g, "R04.1", "R04.1|gate|greeting-ok", "registration only after the greeting exchange was decided Ok", b.loc(ev.bb))
                rep.check(r, "R04.1", "R04.1|gate|ready-ok", "registration only after the READY exchange was decided Ok", b.loc(ev.bb))
                # the registered identity is the READY result
                idarg = ev.args[1] if len(ev.args) > 1 else None
                from_ready = idarg is not None and pathq.mentions_call(idarg, lambda x: hs.is_poll_of_role(f, x, "ready")) is not None
                rep.check(from_ready, "R04.1", "R04.1|gate|identity-provenance", "the peer is registered under the identity the READY exchange returned", b.loc(ev.bb))
                roles = {hs.anchors(f).get("greet"): "greeting", hs.anchors(f).get("ready"): "ready"}
                order = [roles[e.name] for _, e in pathq.calls(p, upto=i) if e.name in roles]
                if in_driver:
                    first_ready = next((e for _, e in pathq.calls(p, upto=i) if roles.get(e.name) == "ready"), None)
                    if first_ready is not None:
                        pre = type("Prefix", (), {"conds": p.conds[:first_ready.ncond]})()
                        g_, cmp_ok, _txt = version_decision(pre)
                        if g_ and cmp_ok:
                            order = ["greeting"] + order
                rep.check(order[:2] == ["greeting", "ready"], "R04.1", "R04.1|gate|order", "greeting exchange precedes READY exchange precedes registration (%s)" % order, b.loc(ev.bb))
        rep.floor("R04.1", "registration events on driver paths", n, 1)
        # no leak of the rejected connection
        leaks = [fn["name"] for bb, t, fn in b.calls() if fn and fn["name"] in ("forget", "leak", "into_raw")]
        rep.check(not leaks, "R04.5", "R04.5|no-leak", "the handshake driver never forgets/leaks the connection (it is dropped on every Err exit): %s" % leaks, b.loc())


def check_registration(f, rep):
    impls = trait_impls(f, "MultiPeerBackend", "peer_connected")
    rep.floor("R04.4", "peer_connected impls", len(impls), 6)
    for ty, outer in sorted(impls.items()):
        co = coroutine_of(f, outer)
        if co is None:
            rep.bad("R04.4", "R04.4|%s|anchor" % ty, "async body missing", outer.loc())
            continue
        full = 0
        for p in pathq.paths(f, co):
            if p.end != "return":
                continue
            tab = [(i, e) for i, e in pathq.calls(p, "upsert_async", "upsert_sync", "insert_async", "insert_sync", "insert_entry", "entry_async") if "scc::" in e.name]
            fq = [(i, e) for i, e in pathq.calls(p, "insert") if fqmod.inner_name(f) in e.name]
            rr = [(i, e) for i, e in pathq.calls(p, "push") if "SegQueue" in e.name]
            rep.check(len(tab) <= 1 and len(fq) <= 1 and len(rr) <= 1, "R04.4", "R04.4|%s|at-most-once" % ty,
                      "%s registers at most once per path (table %d, receive queue %d, rotation %d)" % (ty, len(tab), len(fq), len(rr)), co.loc())
            if (fq or rr) and not tab:
                rep.bad("R04.4", "R04.4|%s|partial" % ty, "%s queues a peer without a peer-table entry on some path" % ty, co.loc())
            for i, e in tab + fq + rr:
                k = e.args[1] if len(e.args) > 1 else None
                kk = k
                while kk is not None and kk[0] in ("pure", "call") and short(kk[1]) in ("clone", "to_owned", "deref") and kk[2]:
                    kk = kk[2][0]
                while kk is not None and kk[0] in ("ref", "deref"):
                    kk = kk[1]
                ok = kk is not None and (kk[0] == "field" or kk[0] == "arg")
                rep.check(ok, "R04.4", "R04.4|%s|key|%s" % (ty, short(e.name)), "%s: %s is keyed by the peer_id parameter (%s)" % (ty, short(e.name), show(k)[:50] if k else None), co.loc(e.bb))
            for i, e in tab:
                n = short(e.name)
                if n.startswith("insert_"):
                    # insert refuses an existing key: the result must be looked at
                    used = False
                    for (ce, c, _, _) in p.conds:
                        if ce[0] != "discr":
                            continue
                        inner = ce[1]
                        direct_poll = inner[0] in ("call", "pure") and (inner[1].endswith("}") or short(inner[1]) == "poll")
                        if not direct_poll and any(y == e.result for y in walk_expr(inner)):
                            used = True
                    rep.check(used, "R04.4", "R04.4|%s|overwrite" % ty,
                              "%s registers with %s, which refuses an existing key, and ignores the outcome: a reconnecting peer with the same identity keeps the dead connection" % (ty, n), co.loc(e.bb))
                elif n.startswith("entry_"):
                    # the entry API overwrites only through Entry::insert_entry(v) on the undecided entry; or_insert*/and_modify or a
                    # match on Occupied/Vacant keep (parts of) what an earlier connection with the same identity left behind
                    follow = [short(e2.name) for j, e2 in pathq.calls(p) if j > i and ("scc::" in e2.name) and
                              short(e2.name) in ("or_insert", "or_insert_with", "or_insert_with_key", "or_default", "and_modify", "insert_entry", "get_mut", "insert", "put_entry")]
                    whole = follow == ["insert_entry"] and any("::Entry<" in e2.name or "Entry::<" in e2.name or "hash_map::Entry" in e2.name
                                                               for j, e2 in pathq.calls(p, "insert_entry") if j > i and "Vacant" not in e2.name)
                    rep.check(whole, "R04.4", "R04.4|%s|overwrite" % ty,
                              "%s registers through the entry API (%s): only Entry::insert_entry replaces an existing entry; anything else lets a reconnecting peer "
                              "with the same identity keep the dead connection's state" % (ty, follow), co.loc(e.bb))
                else:
                    rep.ok("R04.4", "R04.4|%s|overwrite" % ty, "%s registers with %s (overwrite semantics)" % (ty, n), co.loc(e.bb))
            if tab:
                full += 1
        rep.floor("R04.4", "%s: paths that register the peer" % ty, full, 1)


def check_report(f, rep):
    cb = hs.accept_callbacks(f)
    rep.floor("R04.5", "accept callback coroutine", len(cb), 1)
    for b in cb:
        seen = {"AcceptFailed": 0, "Accepted": 0}
        blocking = []
        for p in pathq.paths(f, b):
            for i, ev in pathq.calls(p, "try_send", "send", "start_send", "feed"):
                a = ev.args[1] if len(ev.args) > 1 else None
                if a is not None and a[0] == "agg" and a[3] in seen:
                    seen[a[3]] += 1
                    if short(ev.name) != "try_send":
                        blocking.append(short(ev.name))
                    # the event goes to the monitor installed *now*: the sender is read from the monitor slot (lock()) after the
                    # last suspension point, not captured before the handshake was awaited (monitor() may be called meanwhile)
                    locks = [j for j, e2 in enumerate(p.events[:i]) if e2.kind == "call" and short(e2.name) == "lock" and "Mutex" in e2.name and
                             any(y == e2.result for y in walk_expr(ev.args[0]))]
                    fresh = bool(locks) and not any(e2.kind == "yield" for e2 in p.events[locks[-1]:i])
                    rep.check(fresh, "R04.5", "R04.5|current-monitor|%s" % a[3],
                              "%s is sent to the monitor looked up after the handshake finished (lock() of the monitor slot with no suspension point before the try_send: %s)" % (a[3], fresh), b.loc(ev.bb))
                    if a[3] == "AcceptFailed":
                        err_arm = any(e[0] == "discr" and c == ("eq", 1) for (e, c, _, _) in p.conds[:ev.ncond])
                        rep.check(err_arm, "R04.5", "R04.5|accept-failed-on-err", "AcceptFailed is emitted on the Err arm of the handshake result", b.loc(ev.bb))
                    if a[3] == "Accepted":
                        okarm = pathq.ok_decided(p, lambda x: True, ev.ncond)
                        rep.check(okarm, "R04.5", "R04.5|accepted-on-ok", "Accepted is emitted only on the Ok arm", b.loc(ev.bb))
        # every failure is reported, whatever its kind: on each returning path that decided the handshake (or the accept) result
        # Err, AcceptFailed is sent unless no monitor is installed - an arm that swallows one error variant hides rejections
        nerrp = 0
        for p in pathq.paths(f, b):
            if p.end != "return":
                continue
            err = False
            for (e, c, _, _) in p.conds:
                if e[0] != "discr" or c != ("eq", 1):
                    continue
                x = e[1]
                while x[0] == "ref":
                    x = x[1]
                is_param = x[0] == "field" and x[1] == ("arg", 1) and names.of(f, "FramedIo") in str(x[3])
                from_driver = not pathq.is_poll(type("E", (), {"kind": "call", "name": x[1] if x[0] in ("call", "pure") else ""})()) and \
                    pathq.mentions_call(x, lambda y: hs.is_poll_of_role(f, y, "driver")) is not None and \
                    not (x[0] in ("call", "pure") and hs.is_poll_of_role(f, x, "driver"))
                if is_param or from_driver:
                    err = True
            if not err:
                continue
            nerrp += 1
            sent = any(len(ev.args) > 1 and ev.args[1][0] == "agg" and ev.args[1][3] == "AcceptFailed" for i, ev in pathq.calls(p, "try_send"))
            no_monitor = any(e[0] == "discr" and c == ("eq", 0) and pathq.mentions_call(e[1], lambda y: short(y[1]) == "lock" and "Mutex" in y[1]) is not None
                             for (e, c, _, _) in p.conds)
            rep.check(sent or no_monitor, "R04.5", "R04.5|every-failure-reported",
                      "on every path that decided the connection's handshake / accept result Err, AcceptFailed is sent (or no monitor is installed): sent=%s, no monitor=%s" % (sent, no_monitor), b.loc())
        rep.floor("R04.5", "failing paths of the accept callback", nerrp, 2)
        rep.check(seen["AcceptFailed"] > 0, "R04.5", "R04.5|accept-failed-reported", "a failed handshake reaches try_send(SocketEvent::AcceptFailed(..)) (%d path events)" % seen["AcceptFailed"], b.loc())
        rep.check(not blocking, "R04.5", "R04.5|non-blocking-monitor", "monitor events use the non-blocking try_send (%s)" % blocking, b.loc())
    cn = [b for b in f.bodies if b.path.endswith("Socket::connect::{closure#0}")]
    rep.floor("R04.5", "Socket::connect", len(cn), 1)
    for b in cn:
        prop = False
        swallowed = False
        for p in pathq.paths(f, b):
            if p.end != "return":
                continue
            hs_ = [e for (e, c, _, _) in p.conds if e[0] == "discr" and hs.is_poll_of_role(f, pathq.unwrap_try(e[1]), "driver")]
            for (e, c, _, _) in p.conds:
                if e[0] == "discr" and e[1][0] in ("pure", "call") and short(e[1][1]) == "branch" and c == ("eq", 1) and \
                        pathq.mentions_call(e[1], lambda x: hs.is_poll_of_role(f, x, "driver")) is not None:
                    if pathq.ret_kind(p) == "Err":
                        prop = True
                    else:
                        swallowed = True
        rep.check(prop and not swallowed, "R04.5", "R04.5|connect-propagates", "connect() returns Err when the handshake fails (propagated %s, swallowed %s)" % (prop, swallowed), b.loc())


DEPENDS = ['accept']     # foundation groups re-evaluated as necessary conditions (rules/found.py)


def run(ctx, f, rep):
    from . import found
    found.import_groups(ctx, f, rep, 'C04', DEPENDS)
    check_compat(f, rep)
    # the relation a peer meets is compatible() composed with the parser of its announced name
    tables.check_name_table(f, rep, "R04.2", "SocketType", SOCKET_TYPES, want_reader=True)
    check_identity(f, rep)
    check_version(f, rep)
    check_ready(f, rep)
    check_gate(f, rep)
    check_registration(f, rep)
    check_report(f, rep)
