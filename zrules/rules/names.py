"""Crate-internal type names the rules need, found by role - none of them is looked up by what it is called:
  FramedIo            the connection type `MultiPeerBackend::peer_connected` (public trait) is handed
  AcceptStopHandle    the value type of the table `Socket::binds()` (public trait) returns
  <X>SocketBackend    the backend type the public socket type `<X>Socket` keeps behind an Arc (its MultiPeerBackend impl)
  GenericSocketBackend   the backend shared by DealerSocket / RouterSocket / PushSocket / PullSocket"""
import re

_memo = {}
PUBLIC_SOCKETS = {"SubSocketBackend": "SubSocket", "PubSocketBackend": "PubSocket", "XPubSocketBackend": "XPubSocket",
                  "RepSocketBackend": "RepSocket", "ReqSocketBackend": "ReqSocket", "GenericSocketBackend": "DealerSocket"}


def table(f):
    if id(f) in _memo:
        return _memo[id(f)]
    T = {}
    for path, sig in f.fns.items():
        if path.endswith("MultiPeerBackend::peer_connected") and not path.startswith("<") and len(sig.get("inputs", [])) >= 3:
            T["FramedIo"] = sig["inputs"][2].split("::")[-1]
        if path.endswith("Socket::binds") and not path.startswith("<"):
            m = re.search(r"([A-Za-z0-9_]+)>+$", sig.get("output", ""))
            if m:
                T["AcceptStopHandle"] = m.group(1)
    impl_tys = set()
    for b in f.bodies:
        if b.j.get("name") == "peer_connected" and (b.j.get("impl_trait") or "").endswith("MultiPeerBackend"):
            impl_tys.add((b.j.get("impl_self") or "").split("::")[-1])
    for role, sock in PUBLIC_SOCKETS.items():
        for p_, a in f.adts.items():
            if a["kind"] == "Struct" and p_.split("::")[-1] == sock:
                for fl in a["variants"][0]["fields"]:
                    m = re.search(r"Arc<(?:[A-Za-z0-9_#]+::)*([A-Za-z0-9_]+)>", fl["ty"])
                    if m and m.group(1) in impl_tys:
                        T[role] = m.group(1)
    _memo[id(f)] = T
    return T


def of(f, role):
    """the current name of the type playing `role` (the role's customary name when it cannot be found: the caller's anchor
    check then reports it missing)"""
    return table(f).get(role, role)
