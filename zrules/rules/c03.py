"""C03 - peer bytes cannot crash the process or force allocation (structural clauses).

Attack surface = everything reachable in the local call graph from the decoder, the handshake functions,
the six peer_connected impls, the seven recv impls and the subscription handlers. Decides: (R03.1) every
panic-capable operation on the surface (Assert terminators, Buf::get_*, advance/split_to/split_off, slice
indexing, unwrap/expect, Vec::remove, explicit panics) is discharged on every path by an earlier guard
(interval / symbolic length facts, typestate invariant of the decoder, Some-ness facts, bounded
arithmetic) or by a single-symbol allow entry with a reason; (R03.2) no allocation size derives from
wire-supplied values without a guard against the buffered length; (R03.3) no recursion on the surface
(stack depth independent of input); (R03.4) no unwrap/expect on a Result; (R03.5) isolation, the structural half of
"other connections keep working": dropping the offending connection forgets that peer only (keyed removals, no bulk
operation on a shared container: C16 R16.4) and never discards the other peers' queued wake-ups or resets the ticket
order (C06 R06.5), both re-evaluated. Does NOT decide measured heap growth or liveness of other connections at run time."""
import os
from ..sym import Sym, show, walk_expr, PathExplosion
from ..common import trait_impls, short, coroutine_of, strip_casts, mask_of
from .. import callgraph, oblig
from ..facts import callee_name, fmt_span
from .c02 import decoder_roles, loop_heads

from ..report import norm_key

EXPLANATION = __doc__
NOT_DECIDED = "measured heap high-water versus bytes received; that other connections keep working at run time"
ASSUMPTIONS = ["contract table for bytes/std panic preconditions (zrules/oblig.py) is complete for the callees that occur on the surface",
               "dependencies (asynchronous-codec, bytes, scc, futures) do not panic when their documented preconditions hold",
               "String/Vec/Bytes lengths are <= isize::MAX"]
RULES = {
    "R03.1": "every panic-capable operation reachable from peer input is guarded on every path (or allow-listed by exact key with a reason)",
    "R03.2": "allocation-size sinks (reserve/with_capacity/resize/from_elem) never take a wire-derived size unless it is compared with the buffered length",
    "R03.3": "no cycle in the call graph restricted to the attack surface",
    "R03.4": "no unwrap/expect on Result anywhere on the surface",
    "R03.5": "isolation: dropping one connection forgets that peer only (C16 R16.4) and keeps the others' queued wake-ups and ticket order (C06 R06.5)",
    "R03.F": "foundation clauses re-evaluated as necessary conditions: " + ", ".join(['accept']),
}

# key -> reason.  Keys carry no line numbers: <rule>|<function>|<callee>#<ordinal among same-callee sites in bb order>
ALLOW = {
    "R03.1|<r#pub::PubSocketBackend as MultiPeerBackend>::peer_connected::{closure#0}::{closure#0}::{closure#0}|begin_panic#0":
        "futures::select! emits panic!(\"all futures in select! were completed\") for the case that every arm's future is "
        "terminated; the receive arm is `recv_queue.next().fuse()`, created fresh in every loop iteration, so it is never "
        "terminated when select! starts: the arm is dead (read and confirmed).",
}

COUNTER_FIELD = [None]     # name of the codec's bytes-needed counter, found by type in run()
ALLOC_SINKS = {"reserve", "reserve_exact", "with_capacity", "resize", "from_elem", "try_reserve", "set_len", "extend_with", "repeat"}


def surface(f):
    roots = []
    for tr, m in (("asynchronous_codec::Decoder", "decode"), ("MultiPeerBackend", "peer_connected"),
                  ("MultiPeerBackend", "peer_disconnected"), ("SocketRecv", "recv")):
        roots += [b.path for b in trait_impls(f, tr, m).values()]
    from . import hs
    hpaths = {v for k, v in hs.anchors(f).items() if k in ("negotiate", "greet", "ready", "driver")}
    for b in f.bodies:
        if b.path in hpaths:
            roots.append(b.path)
        if b.j.get("name") in ("try_from", "from_str") and b.kind == "AssocFn" and any(
                x in (b.j.get("impl_self") or "") for x in ("SocketType", "PeerIdentity", "ZmqGreeting", "ZmqCommand", "ZmqMechanism")):
            roots.append(b.path)
        if b.path.endswith("SocketType::compatible"):
            roots.append(b.path)
    return roots


def decoder_paths(f, dec, self_ty):
    """Abstract interpretation of the decoder's state machine: iterate (state variant, payload, counter, decided header
    flags) abstract states from the constructor to a fixpoint; every step is one pass from the loop head to the next visit of
    it (or to a return / a self-call). Header bits are kept as atoms ("flag", K) with the truth the previous steps decided for
    them, so `long` in the length state is correlated with the 8|1 the header state stored. Private helpers are looked through."""
    from ..pathq import default_inline
    roles = decoder_roles(f, self_ty)
    if roles is None:
        return None, None
    skey = "(*_1).%s" % roles["state"]
    ckey = "(*_1).%s" % roles["counter"]
    inl = default_inline(f)
    init = None
    for b in f.bodies:
        if b.kind == "AssocFn" and (b.j.get("impl_self") or "").endswith(self_ty.split("::")[-1]) and b.j.get("impl_trait") is None:
            for p in Sym(f).paths(b):
                if p.end == "return" and p.ret and p.ret[0] == "agg" and p.ret[1] == "adt" and (p.ret[2] or "").endswith(self_ty.split("::")[-1]) and len(p.ret[4]) == len(roles["fields"]):
                    vals = dict(zip(roles["fields"], p.ret[4]))
                    if roles["state"] in vals and vals[roles["state"]][0] == "agg":
                        init = (vals[roles["state"]], vals[roles["counter"]], frozenset())
    if init is None:
        return None, None
    heads = {(dec.path, b) for b in loop_heads(dec)}
    work = [init]
    seen = set()
    allpaths = []
    while work:
        s = work.pop()
        if s in seen:
            continue
        seen.add(s)
        if len(seen) > 200:
            raise PathExplosion("decoder abstract states do not converge")
        sym = Sym(f, max_visits=2, stop_blocks=heads, inline=inl, inline_depth=3,
                  stop_calls=lambda fn: fn["path"] == dec.path or (fn.get("resolved") or {}).get("path") == dec.path)
        paths = sym.paths(dec, seed={skey: s[0], ckey: s[1]}, seed_conds=[(("flag", k), ("eq", int(t))) for (k, t) in sorted(s[2])])
        for p in paths:
            p.abstract_in = s
        allpaths += paths
        for p in paths:
            if p.end not in ("stop", "return"):
                continue
            so = p.cell(("arg", 1), roles["state"])
            co = p.cell(("arg", 1), roles["counter"])
            if so is None or co is None or so[0] != "agg":
                continue
            decided = dict(s[2])
            st_abs = abstract(so, p, decided)
            # flags only matter while a header is in flight: forget them once the state carries no payload
            if not st_abs[4]:
                decided = {}
            work.append((st_abs, abstract_counter(co), frozenset(decided.items())))
    return allpaths, seen


def abstract(e, p, decided):
    """Keep aggregates, header-bit atoms and decided booleans, forget everything else."""
    if e[0] == "agg":
        return ("agg", e[1], e[2], e[3], tuple(abstract(x, p, decided) for x in e[4]))
    if e[0] == "int":
        return e
    if e[0] == "flag":
        for (c_e, c, _, _) in p.conds:
            if c_e == e and c[0] == "eq":
                decided[e[1]] = bool(c[1])
        return e
    m = mask_of(e)
    if m is not None and not isinstance(m, tuple):
        for (c_e, c, _, _) in p.conds:
            if c_e == e:
                t = c[1] if c[0] == "eq" else (1 if c == ("notin", (0,)) else None)
                if t is not None:
                    decided[m] = bool(t)
        return ("flag", m)
    for (c_e, c, _, _) in p.conds:
        if c_e == e:
            if c[0] == "eq":
                return ("int", c[1])
            if c == ("notin", (0,)):
                return ("int", 1)
    return ("sym", "hdr")


def abstract_counter(e):
    e = strip_casts(e)
    if e[0] == "int":
        return e
    return ("sym", "Wwire")


def site_keys(body):
    """Stable keys for the obligation sites of a body: callee short name + ordinal in block order."""
    inv = oblig.inventory(body)
    counts = {}
    out = {}
    for s in inv:
        nm = short(s["name"]) if not s["name"].startswith("assert:") else s["name"]
        i = counts.get(nm, 0)
        counts[nm] = i + 1
        out[(s["fn"], s["bb"])] = "%s#%d" % (nm, i)
    return out, inv


def tainted(e):
    for x in walk_expr(e):
        if isinstance(x, tuple) and x:
            if x[0] in ("call", "pure") and short(x[1]) in oblig.READ_SIZES:
                return "wire read %s" % short(x[1])
            if x == ("sym", "Wwire"):
                return "decoder counter holding a wire-supplied length"
            if x[0] == "field" and x[3] == "usize" and x[1] == ("deref", ("arg", 1)) and COUNTER_FIELD[0] is not None and x[2] == COUNTER_FIELD[0]:
                return "decoder counter field"
            if x[0] in ("index", "cindex") and any(isinstance(y, tuple) and y and y[0] == "arg" for y in walk_expr(x[1])):
                return "byte of peer data"
    return None


def check_isolation(ctx, f, rep):
    """R03.5 "other connections of the same socket keep working": dropping the offending connection forgets that peer only
    (C16 R16.4) and never discards the queued wake-ups or the ticket order of the others (C06 R06.5) - re-evaluated here."""
    from . import c16, c06
    from ..report import Report
    sub = Report("C03", rep.config)
    c16.analyse_disconnect_impls(f, sub)
    n = 0
    for o in sub.obls:
        if "forgets-only-that-peer" in o.key:
            n += 1
            (rep.ok if o.ok else rep.bad)("R03.5", o.key.replace("R16.4", "R03.5", 1), o.what, o.loc, o.detail)
    sub = Report("C03", rep.config)
    c06.run(ctx, f, sub)
    for o in sub.obls:
        if o.rule == "R06.5":
            n += 1
            (rep.ok if o.ok else rep.bad)("R03.5", o.key.replace("R06.5", "R03.5", 1), o.what, o.loc, o.detail)
    rep.floor("R03.5", "isolation obligations re-evaluated", n, 8)


DEPENDS = ['accept']     # foundation groups re-evaluated as necessary conditions (rules/found.py)


def run(ctx, f, rep):
    from . import found
    found.import_groups(ctx, f, rep, 'C03', DEPENDS)
    check_isolation(ctx, f, rep)
    edges = callgraph.build(f)
    roots = surface(f)
    rep.floor("R03.1", "attack-surface entry points", len(roots), 25)
    R = callgraph.reachable(edges, roots)
    rep.count("surface_functions", len(R))
    # ---- R03.3
    cyc = callgraph.cycles_within(edges, R)
    for comp in cyc:
        rep.bad("R03.3", "R03.3|cycle|%s" % comp[0], "recursion on the attack surface: %s (stack depth can depend on peer input)" % " -> ".join(comp),
                f.body(comp[0]).loc())
    if not cyc:
        rep.ok("R03.3", "R03.3|no-recursion", "no cycle among the %d surface functions" % len(R))
    decs = trait_impls(f, "asynchronous_codec::Decoder", "decode")
    for self_ty in decs:
        r_ = decoder_roles(f, self_ty)
        COUNTER_FIELD[0] = r_["counter"] if r_ else None
    dec_paths = {}
    for self_ty, dec in decs.items():
        try:
            paths, states = decoder_paths(f, dec, self_ty)
        except PathExplosion as e:
            paths, states = None, None
        if paths is None:
            rep.bad("R03.1", "R03.1|decoder-typestate", "decoder typestate invariant could not be established (anchor-missing)", dec.loc())
        else:
            dec_paths[dec.path] = paths
            rep.ok("R03.1", "R03.1|decoder-typestate", "decoder abstract states reached from the constructor: %d; single-step paths: %d" % (len(states), len(paths)), dec.loc())
            rep.count("decoder_abstract_states", len(states))
    total_sites = 0
    alloc_sites = 0
    from ..pathq import default_inline
    inl = default_inline(f)
    own = {}        # body path -> (keys, res of its own sites, standalone)
    ctx = {}        # (fnpath, bb) -> list of result dicts from callers that looked through the helper
    all_paths = {}
    for path in sorted(R):
        body = f.body(path)
        if body is None:
            continue
        keys, inv = site_keys(body)
        sinks = [(bb, t, fn) for bb, t, fn in body.calls() if fn and fn["name"] in ALLOC_SINKS]
        has_inlinable_callee = any(fn and inl(fn) for bb, t, fn in body.calls())
        if not inv and not sinks and not has_inlinable_callee:
            continue
        if path in dec_paths:
            paths = dec_paths[path]
        else:
            try:
                paths = Sym(f, max_visits=2, max_paths=6000, inline=inl, inline_depth=3).paths(body)
            except PathExplosion:
                try:
                    paths = Sym(f, max_visits=1, max_paths=20000, cut_at_yield=True, inline=inl, inline_depth=3).paths(body)
                except PathExplosion as e:
                    rep.bad("R03.1", "R03.1|%s|explosion" % path, "cannot enumerate paths: %s" % e, body.loc())
                    continue
        rep.count("paths_enumerated", len(paths))
        all_paths[path] = paths
        res = oblig.evaluate(f, body, paths)
        own[path] = (keys, {k: r for k, r in res.items() if not r.get("foreign")})
        for k, r in res.items():
            if r.get("foreign") and r["paths"] > 0:
                ctx.setdefault(k, []).append((path, r))
    for path in sorted(own):
        body = f.body(path)
        keys, res = own[path]
        sig = f.fns.get(path) or {}
        private_helper = not sig.get("vis", "Public").startswith("Public") and not body.j.get("impl_trait") and not body.j.get("coroutine_kind")
        if body.kind == "Closure":
            # a closure literal handed straight to an Option/Result combinator that the path engine reads as a `match`
            private_helper = closure_only_in_combinators(f, body)
        for k, r in sorted(res.items(), key=lambda kv: kv[0][1]):
            s = r["site"]
            total_sites += 1
            key = "R03.1|%s|%s" % (path, keys[k])
            what = "%s in %s" % (s["name"], path)
            rule = "R03.4" if (s["kind"] == "unwrap" and "Result" in s["name"]) else "R03.1"
            if rule == "R03.4":
                key = key.replace("R03.1|", "R03.4|", 1)
            akey = next((k_ for k_ in ALLOW if norm_key(k_) == norm_key(key)), None)     # matched without private module qualifiers
            if akey is not None:
                rep.ok(rule, key, "%s: allow-listed: %s" % (what, ALLOW[akey]), s["loc"])
                continue
            if is_wrapper_site(f, body, s):
                rep.ok(rule, key, "%s: precondition belongs to the callers of this one-line wrapper (checked at each call site on the surface)" % what, s["loc"])
                continue
            callers = ctx.get(k, [])
            if private_helper and callers:
                # a crate-private helper: its sites are decided in the context of every surface caller that reaches them
                bad = [(c, cr) for c, cr in callers if cr["fail"] is not None]
                if bad:
                    c, cr = bad[0]
                    rep.bad(rule, key, "%s: NOT guarded on some path through caller %s: %s" % (what, c, cr["fail"][0]), s["loc"], detail="path decisions: %s" % cr["fail"][1])
                else:
                    rep.ok(rule, key, "%s: discharged in the context of %d caller(s) (%s): %s" % (
                        what, len(callers), ", ".join(c.split("::")[-1] for c, _ in callers)[:80], "; ".join(sorted(set().union(*[cr["reasons"] for _, cr in callers])))[:160]), s["loc"])
                continue
            if r["paths"] == 0:
                rep.bad(rule, key, "%s: site not reached by any enumerated path (cannot be discharged)" % what, s["loc"])
            elif r["fail"] is not None:
                rep.bad(rule, key, "%s: NOT guarded on some path: %s" % (what, r["fail"][0]), s["loc"], detail="path decisions: %s" % r["fail"][1])
            else:
                rep.ok(rule, key, "%s: discharged on %d path(s): %s" % (what, r["paths"], "; ".join(sorted(r["reasons"]))[:200]), s["loc"])
    for path, paths in sorted(all_paths.items()):
        body = f.body(path)
        # ---- R03.2 allocation sinks
        for p in paths:
            for ev in p.events:
                if ev.kind == "call" and ev.fn and ev.fn["name"] in ALLOC_SINKS and ev.extra != "inlined":
                    alloc_sites += 1
                    size = ev.args[1] if len(ev.args) > 1 else (ev.args[0] if ev.args else None)
                    if size is None:
                        continue
                    why = tainted(size)
                    key = "R03.2|%s|%s" % (ev.fnpath, short(ev.name))
                    if why:
                        rep.bad("R03.2", key, "allocation size `%s` passed to %s derives from %s: a declared length reserves memory before the bytes arrive"
                                % (show(size)[:80], ev.name, why), body.loc(ev.bb) if ev.fnpath == path else "%s bb%d" % (ev.fnpath, ev.bb))
                    else:
                        rep.ok("R03.2", key, "allocation size `%s` does not derive from wire-supplied values" % show(size)[:60], body.loc(ev.bb) if ev.fnpath == path else None)
    rep.floor("R03.1", "panic obligations on the surface", total_sites, 30)
    rep.count("alloc_sink_evaluations", alloc_sites)
    if alloc_sites == 0:
        rep.ok("R03.2", "R03.2|no-sinks", "no allocation-size sink (reserve/with_capacity/resize/from_elem) is called on the surface")


def _places(x):
    if isinstance(x, dict):
        if "l" in x and "p" in x:
            yield x
        for v in x.values():
            yield from _places(v)
    elif isinstance(x, list):
        for v in x:
            yield from _places(v)


def closure_only_in_combinators(f, cb):
    """The closure value is built once in its parent and its only use is as an argument of a call the engine expands
    (Sym.COMBINATORS): then every invocation is looked through and its panic sites are decided in the caller's context."""
    parent = f.body(cb.j.get("parent"))
    if parent is None:
        return False
    locs = []
    for blk in parent.blocks:
        for st in blk["stmts"]:
            if st["k"] == "assign" and st["rv"]["k"] == "aggregate" and st["rv"].get("ak") == "closure" and \
                    (st["rv"].get("def") or st["rv"].get("adt")) == cb.path and not st["place"]["p"]:
                locs.append(st["place"]["l"])
    if len(locs) != 1:
        return False
    l = locs[0]
    uses = 0
    for blk in parent.blocks:
        for st in blk["stmts"]:
            uses += sum(1 for pl in _places(st) if pl["l"] == l)
        t = blk["term"]
        n = sum(1 for pl in _places(t) if pl["l"] == l)
        if n:
            fn = t["func"].get("fn") if t["k"] == "call" else None
            fam = None
            if fn:
                nm = fn.get("path") or ""
                fam = "Option" if "option::Option" in nm else ("Result" if "result::Result" in nm else None)
            if not fn or (fam, fn["name"]) not in Sym.COMBINATORS:
                return False
            uses += n
    return uses == 2      # the definition and the one call argument


def is_wrapper_site(f, body, s):
    """ZmqMessage::split_off(at) is `self.frames.split_off(at)`: the obligation `at <= len` is checked at its callers."""
    return body.path.endswith("message::ZmqMessage::split_off") and s["kind"] == "cut" and body.n <= 6
