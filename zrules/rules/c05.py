"""C05 - each peer's messages delivered once, whole, in order (structural clauses).

Decides: (R05.1) in the fair queue's poll_next every path that checked a stream out of the map (remove -> Some)
puts the *same* stream back under the *same* key exactly once before it returns or loops - except on the
Ready(None) edge of the inner poll (a finished stream is dropped) - and poll_next has no suspension point
between check-out and check-in; (R05.2) the delivered (key, item) pair is the popped event's key and the value
the inner poll produced, unmodified; (R05.3) in each of the six queue-based recv impls a decoded Message item
is never dropped: the arm returns Ok(value derived from it through that socket's envelope operations) or an
error, never loops; non-message items continue the loop; (R05.4) whole multipart assembly lives in the codec
(rule R02.3 re-evaluated). Does NOT decide absence of duplication/reordering under real schedules."""
from ..sym import show, walk_expr
from ..common import short, trait_impls, coroutine_of, strip_view
from .. import pathq
from . import fq, tables

EXPLANATION = __doc__
NOT_DECIDED = "order/duplication under real arrival schedules and peers joining mid-poll (needs interleaving exploration)"
ASSUMPTIONS = ["std HashMap::remove/insert move the boxed stream without touching it", "FramedRead yields items in stream order (C02)"]
RULES = {
    "R05.1": "check-out/check-in pairing in poll_next: one insert of the same key and stream per checked-out path, except Ready(None)",
    "R05.2": "returned pair = (popped event's key, inner poll's value)",
    "R05.3": "recv arms never discard a Message item; non-message items loop; Err items are reported",
    "R05.4": "multipart accumulator stays in the codec; decode never holds back a complete item (C02 R02.3, R02.2 stall)",
    "R05.5": "no ready event / wake-up is dropped (C06 R06.1, R06.2 re-evaluated): a delivered-once guarantee needs every ready peer to be polled",
    "R05.F": "foundation clauses re-evaluated as necessary conditions: " + ", ".join(['decoder', 'identity']),
}


DEPENDS = ['decoder', 'identity']     # foundation groups re-evaluated as necessary conditions (rules/found.py)


def run(ctx, f, rep):
    from . import found
    found.import_groups(ctx, f, rep, 'C05', DEPENDS)
    ipath, iadt, names = fq.inner_adt(f)
    if not ipath:
        rep.bad("R05.1", "R05.1|inner-anchor", "fair queue state struct not found (anchor-missing)")
        return
    polls = fq.poll_next_body(f, ipath)
    rep.floor("R05.1", "Stream::poll_next of the fair queue", len(polls), 1)
    for b in polls:
        rep.check(not b.yields(), "R05.1", "R05.1|no-yield", "no suspension point between check-out and check-in (poll_next is not a coroutine)", b.loc())
        ps = pathq.paths(f, b, max_visits=2)
        seen = {"some": 0, "pending": 0, "none": 0}
        for p in ps:
            if p.end not in ("return", "cut"):
                continue
            # segment the path at each check-out
            evs = p.events
            outs = [i for i, ev in enumerate(evs) if fq.map_call(ev, "remove") and fq.mentions_field(ev.args[0], names["streams"])]
            for n, i in enumerate(outs):
                ev = evs[i]
                took = any(e[0] == "discr" and e[1] == ev.result and c == ("eq", 1) for (e, c, _, _) in p.conds)
                if not took:
                    continue
                end = outs[n + 1] if n + 1 < len(outs) else len(evs)
                seg = evs[i + 1:end]
                inner = [e2 for e2 in seg if e2.kind == "call" and short(e2.name) in fq.INNER_POLL]
                if not inner:
                    if p.end == "cut" and n == len(outs) - 1:
                        continue
                    rep.bad("R05.1", "R05.1|%s|checked-out-not-polled" % b.path, "a stream is checked out and not polled", b.loc(ev.bb))
                    continue
                pr = inner[0].result
                arm = None
                for (e, c, _, _) in p.conds:
                    if e[0] == "discr" and e[1] == pr:
                        arm = "ready" if c == ("eq", 0) else "pending"
                    if e[0] == "discr" and e[1][0] == "field" and e[1][1][0] == "downcast" and e[1][1][1] == pr and c[0] == "eq":
                        arm = "some" if c[1] == 1 else "none"
                ins = [e2 for e2 in seg if fq.map_call(e2, "insert") and fq.mentions_field(e2.args[0], names["streams"])]
                if arm in ("ready", None):
                    continue    # path cut before the arm was decided
                seen[arm] += 1
                if arm == "none":
                    rep.check(len(ins) == 0, "R05.1", "R05.1|%s|finished-stream-dropped" % b.path, "a stream that ended (Ready(None)) is not re-inserted (%d inserts)" % len(ins), b.loc(ev.bb))
                    continue
                ok = len(ins) == 1
                same = False
                if ok:
                    k, s = ins[0].args[1], ins[0].args[2]
                    same_stream = any(x == ev.result for x in walk_expr(s))
                    same_key = pathq.mentions_call(k, lambda x: short(x[1]) == "pop" and "BinaryHeap" in x[1]) is not None
                    same = same_stream and same_key
                rep.check(ok and same, "R05.1", "R05.1|%s|check-in|%s" % (b.path, arm),
                          "after the inner poll returned %s the checked-out stream is put back exactly once under the event's key (inserts=%d, same stream+key=%s)" % (
                              "Ready(Some)" if arm == "some" else "Pending", len(ins), same), b.loc(ev.bb))
        rep.floor("R05.1", "check-out paths ending in Some / Pending / None", len([k for k, v in seen.items() if v]), 3)
        # R05.2
        n = 0
        for p in ps:
            if p.end != "return" or p.ret is None or p.ret[0] != "agg" or p.ret[3] != "Ready":
                continue
            inner = p.ret[4][0] if p.ret[4] else None
            if inner is None or inner[0] != "agg" or inner[3] != "Some":
                continue
            n += 1
            pair = inner[4][0]
            okk = pair[0] == "agg" and len(pair[4]) == 2
            key_ok = okk and pathq.mentions_call(pair[4][0], lambda x: short(x[1]) == "pop" and "BinaryHeap" in x[1]) is not None
            item = pair[4][1] if okk else None
            item_ok = okk and item[0] == "field" and item[1][0] == "downcast" and item[1][2] == "Some" and \
                pathq.mentions_call(item, lambda x: short(x[1]) in fq.INNER_POLL) is not None and \
                not (item[0] in ("call", "pure") and short(item[1]) not in fq.INNER_POLL)
            rep.check(key_ok and item_ok, "R05.2", "R05.2|%s|pair-provenance" % b.path,
                      "delivered pair = (key of the popped event, value of the inner poll): %s" % show(pair)[:120], b.loc())
        rep.floor("R05.2", "delivery exits of poll_next", n, 1)
    # R05.3
    recvs = trait_impls(f, "SocketRecv", "recv")
    madt = tables.adt_by_suffix(f, "codec::Message")
    mnames = [v["name"] for v in madt["variants"]] if madt else []
    qbased = 0
    for ty, outer in sorted(recvs.items()):
        co = coroutine_of(f, outer)
        if co is None:
            continue
        uses_queue = any(fn and fn["name"] == "next" and any("FairQueue" in a for a in fn.get("args", [])) for bb, t, fn in co.calls())
        if not uses_queue:
            continue
        qbased += 1
        arms = {"Message": 0, "other": 0, "err": 0}
        midx = mnames.index("Message") if "Message" in mnames else -1
        for p in pathq.paths(f, co, max_visits=2, inline_async=True):
            nexts = [ev for i, ev in pathq.calls(p, "next") if "StreamExt" in ev.name or "stream" in ev.name]
            if not nexts:
                continue
            bounds = [ev.ncond for ev in nexts] + [len(p.conds)]
            for j in range(len(nexts)):
                conds = p.conds[bounds[j]:bounds[j + 1]]
                last = j == len(nexts) - 1
                kind = None
                msg_expr = None
                for (e, c, _, _) in conds:
                    if e[0] != "discr":
                        continue
                    x = e[1]
                    if x[0] == "field" and x[1][0] == "downcast" and x[1][2] == "Ok" and kind is None:
                        if c[0] == "eq":
                            kind = "Message" if c[1] == midx else "other"
                            msg_expr = x
                        elif c[0] == "notin":
                            kind = "other" if midx in c[1] else None
                    if x[0] == "field" and x[2] in (1, "1") and c == ("eq", 1) and kind is None:
                        kind = "err"
                if kind is None:
                    continue
                arms[kind] += 1
                if kind == "Message":
                    if not last:
                        rep.bad("R05.3", "R05.3|%s|message-arm" % ty, "%s: a decoded message is dropped and the loop asks for the next item" % ty, co.loc())
                        continue
                    if p.end in ("yield", "unreachable"):
                        continue
                    if p.end == "cut":
                        # bounded enumeration stopped inside an inner loop (frame scan): fine, unless the refused block is
                        # the head of the receive loop itself (the message would be dropped and the loop re-entered)
                        nb = [bb for (fp_, bb) in p.blocks if fp_ == co.path]
                        next_bb = nexts[-1].bb
                        at_outer = p.cut_at is not None and p.cut_at[0] == co.path and co.dominates(p.cut_at[1], next_bb)
                        rep.check(not at_outer, "R05.3", "R05.3|%s|message-arm" % ty,
                                  "%s: after a decoded message the receive loop is not re-entered (enumeration cut at bb%s)" % (ty, p.cut_at[1] if p.cut_at else None), co.loc())
                        continue
                    rk = pathq.ret_kind(p)
                    # the returned value IS that message (moved, labelled by push_front, or its tail after split_off - the envelope rules
                    # C07/C09 decide those), not something rebuilt from parts of it
                    def is_that_message(e, depth=0):
                        e = strip_view(e)
                        if e == msg_expr or depth > 12:
                            return e == msg_expr
                        if e[0] == "havoc":                                   # the same local after a `&mut` call (push_front, pop_front)
                            return is_that_message(e[3], depth + 1)
                        if e[0] in ("call", "pure") and short(e[1]) == "split_off" and e[2]:      # its tail
                            return is_that_message(e[2][0], depth + 1)
                        if e[0] in ("field", "downcast"):
                            return is_that_message(e[1], depth + 1)
                        if e[0] == "agg" and e[1] == "adt" and e[4] and (e[3] in ("Ok", "Some") or "ZmqMessage" in str(e[2])):
                            return all(is_that_message(o, depth + 1) for o in e[4])
                        return False
                    derived = p.ret is not None and is_that_message(p.ret)
                    ok = p.end == "return" and (rk == "Err" or (rk == "Ok" and derived))
                    rep.check(ok, "R05.3", "R05.3|%s|message-arm" % ty,
                              "%s: a decoded message is returned (Ok derived from it) or reported as an error, never dropped (end=%s, kind=%s, derived=%s)" % (
                                  ty, p.end, rk, derived), co.loc())
                elif kind == "other":
                    ok = (not last) or p.end in ("cut", "yield", "unreachable")
                    rep.check(ok, "R05.3", "R05.3|%s|non-message-arm" % ty, "%s: Greeting/Command items are skipped and the loop continues (end=%s)" % (ty, p.end), co.loc())
        rep.floor("R05.3", "%s: Message-arm paths" % ty, arms["Message"], 1)
    rep.floor("R05.3", "queue-based recv impls", qbased, 6)
    # R05.4: re-use the codec accumulator rule
    from . import c02
    from ..report import Report
    sub = Report("C05", rep.config)
    decs = trait_impls(f, "asynchronous_codec::Decoder", "decode")
    for self_ty, dec in decs.items():
        c02.analyse_decoder(f, sub, dec, self_ty)
    for o in sub.obls:
        if o.rule == "R02.3" or (o.rule == "R02.2" and "|stall|" in o.key):
            (rep.ok if o.ok else rep.bad)("R05.4", o.key.replace("R02.3", "R05.4").replace("R02.2", "R05.4"), o.what, o.loc, o.detail)
    # R05.5: a message that is ready is eventually handed out only if its peer's ready event is never dropped and the
    # receiver is woken: the waker protocol rules of C06 are necessary conditions of "consumed exactly once" as well
    from . import c06
    sub2 = Report("C05", rep.config)
    c06.run(ctx, f, sub2)
    for o in sub2.obls:
        if o.rule in ("R06.1", "R06.2", "R06.4", "R06.5"):
            (rep.ok if o.ok else rep.bad)("R05.5", o.key.replace(o.rule, "R05.5", 1), o.what, o.loc, o.detail)
