"""C02 - reassembly independent of segmentation (structural clauses).

Decides: (R02.1) the decoder's typestate table - for every state, the bytes an arm consumes equal the
counter every incoming transition (and the constructor) sets for that state; (R02.2) nothing is consumed
or written before the `buffered >= counter` guard, the insufficient-data exit is effect-free, the decoder never stalls
with enough bytes buffered, and it never assigns to the read buffer itself (only consumes from its front);
(R02.3) the partially assembled multipart message lives in a field of the codec at every exit of decode;
(R02.4) one framing site, no re-wrapping of the transport, the handshake's framed reader is the one that
is moved into the socket. Does NOT decide equality of decoded sequences over all partitions."""
from ..sym import Sym, show, walk_expr, PathExplosion
from . import names
from .. import pathq
from ..facts import callee_name
from ..common import trait_impls, short, strip_casts, len_base, coroutine_of
from ..pathq import default_inline

EXPLANATION = __doc__
NOT_DECIDED = "equality of the decoded item sequence across all partitions of the byte stream (value-level, dynamic)"
ASSUMPTIONS = ["asynchronous-codec FramedRead keeps unread bytes in its own buffer between polls and calls decode until Ok(None)",
               "Buf::get_u8/get_u32/get_u64 consume 1/4/8 bytes; split_to(n)/advance(n) consume n"]
RULES = {
    "R02.1": "typestate table: bytes consumed per state = counter assigned on every edge into that state (Greeting 64, header 1, length 8|1, body = decoded length)",
    "R02.2": "insufficient-data exit returns Ok(None) with no consumption and no state write; every consuming call follows the guard `buffered >= counter`",
    "R02.3": "no exit of decode leaves the multipart accumulator moved out of the codec; frames are accumulated in a codec field",
    "R02.4": "FramedRead::new / codec constructor called from one function; into_inner/into_parts/from_parts/decoder_mut of asynchronous_codec called nowhere; same FramedIo goes through both exchanges and is moved into the backend; read half flows to a live owner",
}

CONSUME = {"get_u8": 1, "get_i8": 1, "get_u16": 2, "get_u16_le": 2, "get_u32": 4, "get_u32_le": 4, "get_u64": 8, "get_u64_le": 8}


def loop_heads(body):
    return {b for (a, b) in body.back_edges()}


def codec_fields(f, self_ty):
    for p, a in f.adts.items():
        if p.endswith("::" + self_ty.split("::")[-1]):
            return a
    return None


def decoder_roles(f, self_ty):
    """Fields of the codec by type/role: (state field, counter field, accumulator field, state enum, its path)."""
    adt = codec_fields(f, self_ty)
    if not adt:
        return None
    fields = adt["variants"][0]["fields"]
    state_f = [x for x in fields if any(k.endswith("::" + x["ty"].split("::")[-1]) and f.adts[k]["kind"] == "Enum" for k in f.adts)]
    cnt_f = [x for x in fields if x["ty"] == "usize"]
    acc_f = [x for x in fields if "ZmqMessage" in x["ty"]]
    if not (state_f and cnt_f and acc_f):
        return None
    sp = [k for k in f.adts if k.endswith("::" + state_f[0]["ty"].split("::")[-1])][0]
    return {"state": state_f[0]["name"], "counter": cnt_f[0]["name"], "acc": acc_f[0]["name"], "enum": f.adts[sp], "enum_path": sp,
            "fields": [x["name"] for x in fields]}


def analyse_decoder(f, rep, dec, self_ty):
    adt = codec_fields(f, self_ty)
    if not adt:
        rep.bad("R02.1", "R02.1|codec-adt", "codec struct %s not found (anchor-missing)" % self_ty)
        return
    fields = adt["variants"][0]["fields"]
    # roles by type: state = field whose type is a local enum; counter = usize field; accumulator = Option<..ZmqMessage>
    state_f = [x for x in fields if any(k.endswith("::" + x["ty"].split("::")[-1]) and f.adts[k]["kind"] == "Enum" for k in f.adts)]
    cnt_f = [x for x in fields if x["ty"] == "usize"]
    acc_f = [x for x in fields if "ZmqMessage" in x["ty"]]
    rep.floor("R02.1", "codec state field (enum)", len(state_f), 1)
    rep.floor("R02.1", "codec bytes-needed counter (usize)", len(cnt_f), 1)
    rep.floor("R02.3", "codec multipart accumulator field", len(acc_f), 1)
    if not (state_f and cnt_f and acc_f):
        return
    sname, cname, aname = state_f[0]["name"], cnt_f[0]["name"], acc_f[0]["name"]
    senum = [f.adts[k] for k in f.adts if k.endswith("::" + state_f[0]["ty"].split("::")[-1])][0]
    senum_path = [k for k in f.adts if k.endswith("::" + state_f[0]["ty"].split("::")[-1])][0]
    rep.floor("R02.1", "decoder states", len(senum["variants"]), 4)
    heads = {(dec.path, b) for b in loop_heads(dec)}
    W = ("sym", "W")
    SELF = "(*_1)"
    transitions = {}    # state_out -> set of counter values
    consumed_by = {}
    npaths = 0
    src = ("arg", 2)
    for v in senum["variants"]:
        ops = tuple(("sym", "hdr") for _ in v["fields"])
        seed = {"%s.%s" % (SELF, sname): ("agg", "adt", senum_path, v["name"], ops), "%s.%s" % (SELF, cname): W}
        sym = Sym(f, max_visits=2, stop_blocks=heads, inline=default_inline(f), inline_depth=3,
                  stop_calls=lambda fn: fn["path"] == dec.path or (fn.get("resolved") or {}).get("path") == dec.path)
        try:
            paths = sym.paths(dec, seed=seed)
        except PathExplosion as e:
            rep.bad("R02.1", "R02.1|explosion", str(e), dec.loc())
            return
        for p in paths:
            if p.end not in ("return", "stop"):
                continue
            npaths += 1
            # guard decision
            guard = None
            for i, (e, c, bb, fp) in enumerate(p.conds):
                if e[0] == "binop" and e[1] in ("Lt", "Le", "Gt", "Ge") and (W in (e[2], e[3])) and (len_base(e[2]) == src or len_base(e[3]) == src):
                    guard = (i, e, c)
                    break
            consumed = []
            stores = []
            first_consume_idx = None
            for ev in p.events:
                if ev.kind == "call" and ev.args and ev.args[0] == src:
                    n = short(ev.name)
                    if n in CONSUME:
                        consumed.append(("int", CONSUME[n]))
                    elif n in ("split_to", "advance", "split_off", "truncate"):
                        consumed.append(strip_casts(ev.args[1]))
                    elif n in ("split", "clear", "take", "copy_to_bytes", "get_uint", "get_int"):
                        consumed.append(("unk", n))
                # the read buffer is only ever consumed from the front: assigning to it (`*src = BytesMut::new()`, mem::take/replace/swap)
                # throws away whatever arrived in the same read after the bytes just consumed
                if (ev.kind == "store" and (ev.target == ("deref", src) or (ev.place or "").startswith("(*_2)") and ev.fnpath == dec.path)) or \
                        (ev.kind == "call" and short(ev.name) in ("take", "replace", "swap") and "mem::" in ev.name and ev.args and src in [a for a in ev.args]):
                    rep.bad("R02.2", "R02.2|%s|buffer-replaced|%s" % (dec.path, v["name"]),
                            "the decoder assigns to the read buffer itself in state %s: bytes that arrived in the same read after the consumed ones are dropped" % v["name"], dec.loc(ev.bb))
                if ev.kind == "store" and ev.extra and ev.extra.get("k") == "assign" and ev.extra["place"]["p"] and ev.extra["place"]["p"][0]["k"] == "deref" and \
                        len(ev.extra["place"]["p"]) >= 2 and ev.extra["place"]["p"][1]["k"] == "field" and ev.extra["place"]["p"][1].get("name") in (sname, cname, aname):
                    stores.append(ev)
            insufficient = None
            if guard:
                i, e, c = guard
                truth = (c == ("notin", (0,))) or (c[0] == "eq" and c[1] == 1)
                op = e[1]
                a_is_len = len_base(e[2]) == src
                # normalise to: insufficient <=> len < W
                rel = op if a_is_len else {"Lt": "Gt", "Gt": "Lt", "Le": "Ge", "Ge": "Le"}[op]
                if rel == "Lt":
                    insufficient = truth
                elif rel == "Ge":
                    insufficient = not truth
                else:
                    rep.bad("R02.2", "R02.2|%s|guard-form" % dec.path,
                            "length guard is `%s`, not a normal form of `buffered < counter` (off by one at the exact-fit boundary)" % show(e), dec.loc())
                    insufficient = truth if rel == "Le" else (not truth)
            key_state = v["name"]
            gives_up = p.end == "return" and p.ret is not None and "Ok(" in show(p.ret) and "None" in show(p.ret) and "Some" not in show(p.ret)
            if gives_up and not (guard is not None and insufficient):
                rep.bad("R02.2", "R02.2|%s|stall|%s" % (dec.path, key_state),
                        "state %s: decode returns Ok(None) on a path where the buffered bytes were NOT found insufficient "
                        "(conditions: %s): a complete item can be held back until more bytes arrive" % (
                            key_state, [show(e_)[:50] for e_, _, _, _ in p.conds][:4]), dec.loc())
            elif gives_up:
                rep.ok("R02.2", "R02.2|%s|stall|%s" % (dec.path, key_state), "state %s: Ok(None) only when buffered < counter" % key_state, dec.loc())
            if guard is None:
                if consumed or stores:
                    rep.bad("R02.2", "R02.2|%s|no-guard|%s" % (dec.path, key_state),
                            "path in state %s consumes or writes state without a dominating `buffered >= counter` guard" % key_state, dec.loc())
                continue
            if insufficient:
                ok_ret = p.end == "return" and p.ret is not None and "None" in show(p.ret) and "Ok" in show(p.ret)
                takes = [ev for ev in p.events if ev.kind == "call" and short(ev.name) in ("take", "replace") and ev.args and any(
                    isinstance(x, tuple) and x and x[0] == "field" and x[2] == aname for x in walk_expr(ev.args[0]))]
                restored = [s for s in stores if s.place.endswith("." + aname)]
                rep.check(ok_ret and not consumed and not [s for s in stores if not s.place.endswith("." + aname)] and (not takes or restored),
                          "R02.2", "R02.2|%s|insufficient-exit|%s" % (dec.path, key_state),
                          "state %s with too few bytes: returns Ok(None) (%s), consumes %s, state writes %s, accumulator moved out %s"
                          % (key_state, ok_ret, [show(c_) for c_ in consumed], [s.place for s in stores], bool(takes) and not restored), dec.loc())
                continue
            # sufficient path: consumption equals the counter for this state
            # guard must precede the first consuming event: conds are in path order; the guard block must come before in blocks
            gbb = p.conds[guard[0]][2]
            cev = [ev for ev in p.events if ev.kind == "call" and ev.args and ev.args[0] == src and (short(ev.name) in CONSUME or short(ev.name) in ("split_to", "advance"))]
            if cev:
                order_ok = p.blocks.index((dec.path, gbb)) < p.blocks.index((cev[0].fnpath, cev[0].bb))
                rep.check(order_ok, "R02.2", "R02.2|%s|consume-after-guard|%s" % (dec.path, key_state),
                          "state %s: first consuming call (%s) follows the length guard" % (key_state, short(cev[0].name)), dec.loc(cev[0].bb))
            total = fold_sum(consumed)
            is_err = p.end == "return" and p.ret is not None and (("::Err" in show(p.ret)) or "from_residual" in show(p.ret))
            if is_err and total == 0:
                continue       # rejected before consuming anything: the connection is dropped with the error
            consumed_by.setdefault(key_state, set()).add(total)
            # outgoing transition
            st_out = [s for s in stores if s.place.endswith(")." + sname)]
            c_out = [s for s in stores if s.place.endswith(")." + cname)]
            if st_out:
                so = st_out[-1].value
                sv = so[3] if so[0] == "agg" else show(so)
                cv = c_out[-1].value if c_out else W
                transitions.setdefault(sv, set()).add(norm_counter(cv))
            elif p.end == "stop":
                transitions.setdefault(key_state, set()).add(norm_counter(c_out[-1].value if c_out else W))
    rep.count("decoder_single_step_paths", npaths)
    if not any("|buffer-replaced|" in o.key for o in rep.obls):
        rep.ok("R02.2", "R02.2|%s|buffer-only-consumed" % dec.path, "the decoder never assigns to the read buffer itself: it only consumes from its front (%d single-step paths)" % npaths, dec.loc())
    # constructor
    ctor = [b for b in f.bodies if b.kind == "AssocFn" and (b.j.get("impl_self") or "").endswith(self_ty.split("::")[-1]) and b.j.get("impl_trait") is None]
    init = None
    for b in ctor:
        for p in Sym(f).paths(b):
            if p.end == "return" and p.ret and p.ret[0] == "agg" and p.ret[1] == "adt" and (p.ret[2] or "").endswith(self_ty.split("::")[-1]) and len(p.ret[4]) == len(fields):
                names = [x["name"] for x in fields]
                vals = dict(zip(names, p.ret[4]))
                if sname in vals:
                    sv = vals[sname]
                    init = (sv[3] if sv[0] == "agg" else show(sv), norm_counter(vals.get(cname)))
    rep.check(init is not None, "R02.1", "R02.1|constructor", "codec constructor sets (state, counter) = %s" % (init,))
    if init:
        transitions.setdefault(init[0], set()).add(init[1])
    # oracle
    rep.floor("R02.1", "states with incoming transitions", len(transitions), 4)
    for st_name in [v["name"] for v in senum["variants"]]:
        inc = transitions.get(st_name, set())
        con = consumed_by.get(st_name, set())
        ok = bool(inc) and bool(con) and inc == con
        # the body state: counter is the decoded length, consumption is the counter itself
        if con == {"W"}:
            ok = bool(inc) and all(str(x).startswith("wire:") for x in inc)
        rep.check(ok, "R02.1", "R02.1|%s|state|%s" % (dec.path, st_name),
                  "state %s: counter set on incoming edges %s, bytes consumed by its arm %s" % (st_name, sorted(map(str, inc)), sorted(map(str, con))), dec.loc())
    # R02.3 accumulator discipline over whole-function paths
    sym = Sym(f, max_visits=3, stop_calls=lambda fn: fn["path"] == dec.path, inline=default_inline(f), inline_depth=3)
    paths = sym.paths(dec)
    rep.count("decoder_paths", len(paths))
    bad_exit = 0
    acc_sites = 0
    for p in paths:
        if p.end not in ("return", "stop"):
            continue
        hollow = None
        for ev in p.events:
            if ev.kind == "call" and short(ev.name) in ("take", "replace") and ev.args and any(
                    isinstance(x, tuple) and x and x[0] == "field" and x[2] == aname for x in walk_expr(ev.args[0])):
                hollow = ev
            if ev.kind == "store" and ev.place.endswith("." + aname):
                hollow = None
        if hollow is not None:
            in_ret = p.ret is not None and any(x == hollow.result for x in walk_expr(p.ret))
            if not in_ret:
                bad_exit += 1
                rep.bad("R02.3", "R02.3|%s|accumulator-moved-out-at-exit" % dec.path,
                        "decode exits (%s) with the multipart accumulator taken out of the codec and not returned: frames already decoded are lost when a message spans reads"
                        % (show(p.ret)[:60] if p.ret else p.end), dec.loc(hollow.bb))
        # frames appended to something that is not the codec field
        for ev in p.events:
            if ev.kind == "call" and short(ev.name) in ("push_back", "push") and ev.args and "ZmqMessage" in ev.name:
                acc_sites += 1
                rooted = any(isinstance(x, tuple) and x and x[0] == "field" and x[2] == aname and x[1] in (("deref", ("arg", 1)),) for x in walk_expr(ev.args[0]))
                rep.check(rooted, "R02.3", "R02.3|%s|append-target" % dec.path,
                          "frames with MORE are appended to %s (must be the codec's accumulator field)" % show(ev.args[0])[:80], dec.loc(ev.bb))
    if not bad_exit:
        rep.ok("R02.3", "R02.3|%s|accumulator-moved-out-at-exit" % dec.path, "no exit of decode leaves the accumulator moved out of the codec", dec.loc())
    rep.floor("R02.3", "frame-append sites on decoder paths", acc_sites, 1)


def fold_sum(parts):
    tot = 0
    syms = []
    for p in parts:
        if p[0] == "int":
            tot += p[1]
        elif p == ("sym", "W"):
            syms.append("W")
        else:
            syms.append(show(p))
    if not syms:
        return tot
    if syms == ["W"] and tot == 0:
        return "W"
    return "%s+%d" % ("+".join(syms), tot)


def norm_counter(e):
    if e is None:
        return None
    e = strip_casts(e)
    if e[0] == "int":
        return e[1]
    if e == ("sym", "W"):
        return "W"
    if e[0] in ("call", "pure") and short(e[1]) in CONSUME:
        return "wire:" + short(e[1])
    return show(e)


def root_local(body, o, depth=8):
    """Underlying local of an operand, looking through &, &mut, moves and reborrows of single-def temporaries."""
    if o["k"] not in ("copy", "move"):
        return None
    l = o["place"]["l"]
    while depth > 0:
        depth -= 1
        d = body.single_def(l)
        if d is None or d[2] != "assign":
            return l
        rv = d[3]
        if rv["k"] == "ref":
            pl = rv["place"]
            if pl["p"] and pl["p"][0]["k"] == "deref" and len(pl["p"]) == 1:
                l = pl["l"]
                continue
            if not pl["p"]:
                l = pl["l"]
                continue
            return l
        if rv["k"] == "use" and rv["op"]["k"] in ("copy", "move") and not rv["op"]["place"]["p"]:
            l = rv["op"]["place"]["l"]
            continue
        return l
    return l


def check_framing_sites(f, rep):
    new_sites = {}
    forbidden = []
    codec_new = {}
    for b in f.bodies:
        for bb, t, fn in b.calls():
            if not fn:
                continue
            path = fn["path"]
            if path.startswith("asynchronous_codec::Framed") and fn["name"] == "new":
                new_sites.setdefault(b.path, []).append(b.loc(bb))
            if path.startswith("asynchronous_codec::") and fn["name"] in ("into_inner", "into_parts", "from_parts", "decoder_mut", "read_buffer", "release"):
                forbidden.append((b.path, path, b.loc(bb)))
    owners = sorted(new_sites)
    rep.check(len(owners) == 1, "R02.4", "R02.4|framing-site", "asynchronous_codec Framed*::new is called from exactly one function: %s" % owners,
              ", ".join(sum(new_sites.values(), [])))
    for (bp, path, loc) in forbidden:
        rep.bad("R02.4", "R02.4|%s|%s" % (bp, path), "%s called: unread bytes / decoder state can be dropped or tampered with" % path, loc)
    if not forbidden:
        rep.ok("R02.4", "R02.4|no-unwrapping", "into_inner/into_parts/from_parts/decoder_mut/read_buffer of asynchronous_codec are called nowhere (0 sites in %d bodies)" % len(f.bodies))
    # same FramedIo through both exchanges, then moved into the backend
    from . import hs
    pcs = [b for b in [hs.co(f, "driver")] if b is not None]
    role_of = {hs.anchors(f).get("greet"): "greet_exchange", hs.anchors(f).get("ready"): "ready_exchange"}
    if hs.greeting_in_driver(f):
        role_of.pop(None, None)     # the driver exchanges the greetings itself, on the connection it owns
    rep.floor("R02.4", "handshake driver", len(pcs), 1)
    for b in pcs:
        roots = {}
        for bb, t, fn in b.calls():
            if not fn:
                continue
            n = fn["name"]
            if callee_name(fn) in role_of:
                roots[role_of[callee_name(fn)]] = root_local(b, t["args"][0])
            if n == "peer_connected" and (fn.get("trait") or "").endswith("MultiPeerBackend"):
                roots["register"] = root_local(b, t["args"][2]) if len(t["args"]) > 2 else None
                roots["register_moved"] = t["args"][2]["k"] == "move" if len(t["args"]) > 2 else False
        # names to locals: async fn args are moved from the upvar into a local first
        def canon(l):
            seen = set()
            while l is not None and l not in seen:
                seen.add(l)
                d = b.single_def(l)
                if d and d[2] == "assign" and d[3]["k"] == "use" and d[3]["op"]["k"] in ("move", "copy") and not d[3]["op"]["place"]["p"]:
                    l = d[3]["op"]["place"]["l"]
                else:
                    break
            return l
        vals = {k: canon(v) for k, v in roots.items() if k != "register_moved"}
        same = len(vals) == 3 and len(set(vals.values())) == 1 and None not in vals.values()
        if not same and roots.get("register_moved"):
            # an exchange may run inside a crate-private async helper of the driver: then follow the value on the driver's paths -
            # the connection each exchange is handed, and the one that is registered, are the same original value
            def origin(x):
                while isinstance(x, tuple) and x and (x[0] in ("ref", "deref") or x[0] == "havoc"):
                    x = x[3] if x[0] == "havoc" else x[1]
                return x
            nreg = 0
            same = True
            for p in hs.driver_paths(f, b):
                for i, ev in pathq.calls(p, "peer_connected"):
                    if not (ev.fn and (ev.fn.get("trait") or "").endswith("MultiPeerBackend")) or len(ev.args) < 3:
                        continue
                    nreg += 1
                    got = {role_of[e.name]: origin(e.args[0]) for _, e in pathq.calls(p, upto=i) if e.name in role_of and e.args}
                    if set(got) != set(role_of.values()) or any(v != origin(ev.args[2]) for v in got.values()):
                        same = False
            same = same and nreg > 0
            vals = dict(vals, followed_on_paths=nreg)
        rep.check(same and roots.get("register_moved"), "R02.4", "R02.4|same-framed-io",
                  "the FramedIo used for the greeting and READY exchanges is the one moved into MultiPeerBackend::peer_connected (locals %s)" % vals, b.loc())
    # read half flows to a live owner in each backend
    impls = trait_impls(f, "MultiPeerBackend", "peer_connected")
    rep.floor("R02.4", "MultiPeerBackend::peer_connected impls", len(impls), 6)
    for ty, outer in impls.items():
        co = coroutine_of(f, outer)
        if co is None:
            rep.bad("R02.4", "R02.4|%s|coroutine" % ty, "async body not found (anchor-missing)", outer.loc())
            continue
        parts = [(bb, t) for bb, t, fn in co.calls() if fn and fn["name"] == "into_parts" and names.of(f, "FramedIo") in fn["path"]]
        if not parts:
            rep.bad("R02.4", "R02.4|%s|into_parts" % ty, "FramedIo::into_parts not called (anchor-missing)", co.loc())
            continue
        # the read half type appears as an argument of insert(..), in an aggregate, or as a capture of a spawned task
        from ..pathq import default_inline
        looked_through = default_inline(f)
        sinks = []

        def scan(body, depth):
            for bb, blk in enumerate(body.blocks):
                for st in blk["stmts"]:
                    if st["k"] == "assign" and st["rv"]["k"] == "aggregate":
                        for o in st["rv"]["ops"]:
                            if o["k"] == "move" and "FramedRead" in o["place"].get("ty", ""):
                                # a struct (Peer { .. }) or the captures of a spawned task own it; a bare tuple / array is just a temporary
                                kind = "aggregate" if st["rv"]["ak"] in ("adt", "closure", "coroutine") else "temporary"
                                sinks.append("%s:%s" % (kind, st["rv"].get("adt") or st["rv"].get("def") or st["rv"]["ak"]))
                t = blk["term"]
                if t["k"] == "call" and t["func"].get("fn"):
                    fn = t["func"]["fn"]
                    for o in t["args"]:
                        if o["k"] == "move" and "FramedRead" in o["place"].get("ty", "") and not o["place"]["ty"].startswith("&"):
                            cb = f.body(callee_name(fn))
                            if depth < 3 and looked_through(fn) and cb is not None:
                                scan(cb, depth + 1)        # a private helper: where does *it* put the read half
                            else:
                                sinks.append("call:%s" % fn["name"])
        scan(co, 0)
        live = [s for s in sinks if s.startswith("call:insert") or s.startswith("aggregate:")]
        rep.check(bool(live), "R02.4", "R02.4|%s|read-half-owner" % ty,
                  "the handshake's read half (with its buffered bytes) is handed to a live owner: %s" % sorted(set(sinks)), co.loc())


def run(ctx, f, rep):
    decs = trait_impls(f, "asynchronous_codec::Decoder", "decode")
    rep.floor("R02.1", "Decoder::decode impl", len(decs), 1)
    for self_ty, dec in decs.items():
        analyse_decoder(f, rep, dec, self_ty)
    check_framing_sites(f, rep)
