"""C14 - dropping a pending recv loses nothing and leaves the socket usable (structural clauses).

For all seven SocketRecv::recv coroutines, on every path and at every suspension point (Yield = the only
places where the future can be dropped): (R14.1) no field of the socket has been written, taken, popped or
otherwise changed before the yield (the protocol state is exactly what it was when recv was called);
(R14.2) no received message is held by the future across a yield: once an item has been taken from a
connection (poll decided Ready(Some)) for the Message arm the path reaches a return without another suspension
point; (R14.3) the fair queue's poll_next is a plain function (check-out/check-in cannot be interrupted; C05
R05.1) and re-registers the caller's waker on every poll, so a waker left by a dropped future is replaced
(C06 R06.1 re-evaluated); (R14.4) partially received frames/messages live in the per-connection codec, not in
the future (C02 R02.3 re-evaluated). proxy() only ever drops recv futures (C15).
Nothing is left undecided inside the crate; the remaining trust is that FramedRead::poll_next keeps its state in self."""
from ..sym import show, walk_expr
from ..common import short, trait_impls, coroutine_of
from .. import pathq
from ..report import Report

EXPLANATION = __doc__
NOT_DECIDED = "behaviour of asynchronous-codec's FramedRead::poll_next under cancellation (dependency contract: all state in self)"
ASSUMPTIONS = ["a future can only be dropped at a Yield of its coroutine (Rust async semantics)",
               "asynchronous_codec::FramedRead::poll_next and scc::HashMap::get_async futures are cancel-safe (keep no item in the future)"]
RULES = {
    "R14.1": "no socket field changed (store / take / replace / pop / remove) before any Yield of recv",
    "R14.2": "no Yield between taking a message item from a connection and returning it",
    "R14.3": "fair queue poll is synchronous and re-arms the waker on every poll (C05 R05.1, C06 R06.1)",
    "R14.4": "partial messages live in the codec (C02 R02.3)",
    "R14.F": "foundation clauses re-evaluated as necessary conditions: " + ", ".join(['decoder', 'wakeup']),
}

DESTRUCTIVE = {"take", "replace", "pop", "pop_front", "pop_back", "remove", "swap_remove", "clear", "drain", "insert", "push", "push_back", "push_front", "truncate", "split_off", "swap", "get_or_insert", "insert_entry"}


def socket_fields(f, ty):
    for p, a in f.adts.items():
        if p.endswith("::" + ty.split("::")[-1]) and a["kind"] == "Struct":
            return [x["name"] for x in a["variants"][0]["fields"]]
    return []


def self_rooted_field(e, fields):
    """name of the socket field that expression e is a place of (rooted at the coroutine's captured &mut self), else None"""
    x = e
    while isinstance(x, tuple) and x and x[0] in ("ref",):
        x = x[1]
    name = None
    while isinstance(x, tuple) and x:
        if x[0] == "field":
            name = x[2]
            x = x[1]
        elif x[0] in ("deref", "downcast"):
            x = x[1]
        else:
            break
        if x == ("field", ("arg", 1), 0, x[3] if len(x) > 3 else None) or (isinstance(x, tuple) and x and x[0] == "field" and x[1] == ("arg", 1)):
            return name if name in fields else None
    return None


DEPENDS = ['decoder', 'wakeup']     # foundation groups re-evaluated as necessary conditions (rules/found.py)


def run(ctx, f, rep):
    from . import found
    found.import_groups(ctx, f, rep, 'C14', DEPENDS)
    recvs = trait_impls(f, "SocketRecv", "recv")
    rep.floor("R14.1", "SocketRecv::recv impls", len(recvs), 7)
    total_y = 0
    for ty, outer in sorted(recvs.items()):
        co = coroutine_of(f, outer)
        if co is None:
            rep.bad("R14.1", "R14.1|%s|anchor" % ty, "async body not found (anchor-missing)", outer.loc())
            continue
        fields = socket_fields(f, ty)
        ys = co.yields()
        total_y += len(ys)
        rep.floor("R14.1", "%s: suspension points" % ty, len(ys), 1)
        changed_before_yield = {}
        held_over_yield = 0
        nyield_events = 0
        for p in pathq.paths(f, co, max_visits=2, inline_async=True):
            dirty = []        # (event index, description)
            have_msg = None   # index where a Message item was taken
            for i, ev in enumerate(p.events):
                if ev.kind == "store" and ev.extra and ev.extra.get("k") == "assign":
                    # where the store lands in terms of the socket (also when it happens in a private helper through `&mut self.field`)
                    nm = self_rooted_field(ev.target, fields) if ev.target is not None else None
                    if nm is not None and pathq.mentions_call(ev.target, lambda y: short(y[1]) in ("deref", "deref_mut", "lock")) is None:
                        dirty.append((i, "store to self.%s" % nm, ev))
                elif ev.kind == "call" and ev.extra != "inlined" and short(ev.name) in DESTRUCTIVE and ev.args and not pathq.is_poll(ev):
                    nm = self_rooted_field(ev.args[0], fields)
                    # direct field of the socket (not something reached through an Arc'ed backend or the queue's own state)
                    direct = nm is not None and pathq.mentions_call(ev.args[0], lambda y: short(y[1]) in ("deref", "deref_mut", "lock")) is None
                    if direct:
                        dirty.append((i, "%s(self.%s)" % (short(ev.name), nm), ev))
                elif ev.kind == "yield":
                    nyield_events += 1
                    for (di, what, dev) in dirty:
                        changed_before_yield.setdefault(what, (co.loc(dev.bb), co.loc(ev.bb)))
                    if have_msg is not None:
                        held_over_yield += 1
                        rep.bad("R14.2", "R14.2|%s|message-held-across-await" % ty,
                                "%s: a message taken from a connection is still held by the future at a later suspension point: dropping the future there loses it" % ty, co.loc(ev.bb))
                if ev.kind == "call" and pathq.is_poll(ev) and ("Next" in ev.name or "next" in ev.name):
                    pass
            # message arm decisions: find them in order with event positions: use ncond of later events
            # (a Message-arm decision is a discr on ((item as Some).0.1 as Ok).0 == Message)
            # walk again with cond positions
            from . import tables
            madt = tables.adt_by_suffix(f, "codec::Message")
            midx = [v["name"] for v in madt["variants"]].index("Message") if madt else 2
            msg_cond_idx = None
            for ci, (e, c, _, _) in enumerate(p.conds):
                if e[0] == "discr" and c == ("eq", midx) and e[1][0] == "field" and e[1][1][0] == "downcast" and e[1][1][2] == "Ok":
                    msg_cond_idx = ci
                    break
            if msg_cond_idx is not None:
                later_y = [ev for ev in p.events if ev.kind == "yield" and ev.term is not None and False]
                # events after that decision: those whose ncond > msg_cond_idx
                after = [ev for ev in p.events if (ev.ncond is not None and ev.ncond > msg_cond_idx)]
                # yields do not carry ncond; locate by position: first event with ncond > idx
                pos = None
                for k, ev in enumerate(p.events):
                    if ev.ncond is not None and ev.ncond > msg_cond_idx:
                        pos = k
                        break
                if True:
                    ys_after = [ev for ev in p.events[pos:] if ev.kind == "yield"] if pos is not None else []
                    if ys_after:
                        rep.bad("R14.2", "R14.2|%s|message-held-across-await" % ty,
                                "%s: after a message item has been taken from a connection the future suspends again before returning it" % ty, co.loc(ys_after[0].bb))
                    else:
                        rep.ok("R14.2", "R14.2|%s|message-held-across-await" % ty, "%s: a message item, once taken, is returned without another suspension point" % ty, co.loc())
        rep.count("yield_events_on_paths", nyield_events)
        for what, (l1, l2) in sorted(changed_before_yield.items()):
            rep.bad("R14.1", "R14.1|%s|%s" % (ty, what.split("(")[0] + ":" + what.split(".")[-1].rstrip(")")),
                    "%s: %s happens before a suspension point of recv (%s): a recv future dropped there leaves the socket's protocol state changed" % (ty, what, l2), l1)
        if not changed_before_yield:
            rep.ok("R14.1", "R14.1|%s|state-untouched-before-yields" % ty, "%s: no socket field is changed before any suspension point of recv (%d yields, fields %s)" % (ty, len(ys), fields), co.loc())
    rep.floor("R14.1", "suspension points in all recv impls", total_y, 8)
    # R14.3 / R14.4 re-evaluations
    from . import c06, c02, c05
    sub = Report("C14", rep.config)
    c06.run(ctx, f, sub)
    for o in sub.obls:
        if o.rule == "R06.1":
            (rep.ok if o.ok else rep.bad)("R14.3", o.key.replace("R06.1", "R14.3", 1), o.what, o.loc, o.detail)
    sub = Report("C14", rep.config)
    for self_ty, dec in trait_impls(f, "asynchronous_codec::Decoder", "decode").items():
        c02.analyse_decoder(f, sub, dec, self_ty)
    for o in sub.obls:
        if o.rule == "R02.3":
            (rep.ok if o.ok else rep.bad)("R14.4", o.key.replace("R02.3", "R14.4", 1), o.what, o.loc, o.detail)
