"""C12 - a slow subscriber never blocks the publisher (structural clauses).

Decides: (R12.1) in the PUB and XPUB send coroutines no suspension point awaits a sink future (Send/Feed/Flush/
Close) or anything holding a FramedWrite: every await is on the peer-map iterator; all wire writes go through
TrySend::try_send; (R12.2) try_send shape on every path: start_send only after poll_ready was decided
Ready(Ok) with a no-op-waker context; Pending -> Err(BufferFull) with no start_send (whole-message drop);
Ready(Err) -> Err; poll_flush follows start_send and its Pending is not treated as failure;
(R12.3) publish-loop arms: after a BufferFull result, and after an I/O error of any kind, the loop goes on to the
next subscriber (no return); only BrokenPipe marks the peer dead; dead peers are removed only after the iteration
over the map has finished (never while an entry guard is held); (R12.4) the send high-water mark is never raised.
Does NOT decide the memory bound or stream well-formedness inside asynchronous-codec's FramedWrite."""
from ..sym import show, walk_expr
from ..common import short, awaits
from .. import pathq
from .c07 import socket_coroutine

EXPLANATION = __doc__
NOT_DECIDED = "the byte bound (HWM + one message) and framing under partial writes live inside asynchronous-codec::FramedWrite (trusted contract)"
ASSUMPTIONS = ["FramedWrite::poll_ready refuses (flushes/pends) when its buffer is at or above the high-water mark; start_send appends one whole encoded item",
               "futures::task::noop_waker never wakes anything"]
RULES = {
    "R12.1": "no await on a subscriber sink in PUB/XPUB send; writes only via try_send",
    "R12.2": "try_send: poll_ready(Ready(Ok)) -> start_send -> poll_flush (ignored); Pending -> BufferFull, nothing encoded",
    "R12.3": "BufferFull and I/O-error arms continue with the next subscriber; only BrokenPipe marks dead; removal after the iteration",
    "R12.4": "set_send_high_water_mark called nowhere",
    "R12.F": "foundation clauses re-evaluated as necessary conditions: " + ", ".join(['pubreader']),
}


def check_try_send(f, rep):
    # ---- R12.2
    ts = [b for b in f.bodies if b.j.get("name") == "try_send" and (b.j.get("impl_trait") or "").endswith("TrySend")]
    rep.floor("R12.2", "TrySend::try_send impl", len(ts), 1)
    for b in ts:
        rep.check(not b.j.get("coroutine_kind") and not b.yields(), "R12.2", "R12.2|plain-fn", "try_send is a plain function: it cannot wait", b.loc())
        seen = {"ready_ok": 0, "pending": 0, "ready_err": 0}
        for p in pathq.paths(f, b):
            if p.end != "return":
                continue
            # (SinkExt's `*_unpin` forms are Pin::new(self).*)
            pr = [(i, ev) for i, ev in enumerate(p.events) if ev.kind == "call" and short(ev.name) in ("poll_ready", "poll_ready_unpin")]
            ss = [(i, ev) for i, ev in enumerate(p.events) if ev.kind == "call" and short(ev.name) in ("start_send", "start_send_unpin")]
            pf = [(i, ev) for i, ev in enumerate(p.events) if ev.kind == "call" and short(ev.name) in ("poll_flush", "poll_flush_unpin")]
            if not pr:
                rep.bad("R12.2", "R12.2|%s|readiness-checked" % b.path, "try_send never asks the sink whether it can take an item (poll_ready missing): the high-water mark is not honoured", b.loc())
                continue
            r = pr[0][1].result
            arm = None
            for (e, c, _, _) in p.conds:
                if e[0] == "discr" and e[1] == r and c[0] == "eq":
                    arm = "ready" if c[1] == 0 else "pending"
                if arm == "ready" and e[0] == "discr" and e[1][0] == "field" and e[1][1][0] == "downcast" and e[1][1][1] == r and c[0] == "eq":
                    arm = "ready_ok" if c[1] == 0 else "ready_err"
                # the Ready payload decided through `?` (`Poll::Ready(ready) => ready?`): Continue = Ok, Break = Err
                x_ = pathq.unwrap_try(e[1]) if e[0] == "discr" else None
                if arm == "ready" and x_ is not None and x_ is not e[1] and x_[0] == "field" and x_[1][0] == "downcast" and x_[1][1] == r and c[0] == "eq":
                    arm = "ready_ok" if c[1] == 0 else "ready_err"
            if arm is None:
                # the other spelling: `poll_ready(cx)?` takes the Ready(Err) exit through Try for Poll<Result<..>>, and what is left
                # is asked `is_pending()` / `is_ready()` (or matched)
                from ..sym import derived_decision
                for (e, c, _, _) in p.conds:
                    d = derived_decision(e, c)
                    if d is not None:
                        e, c = d
                    if e[0] != "discr" or c[0] != "eq":
                        continue
                    x = e[1]
                    if x[0] in ("call", "pure") and short(x[1]) == "branch" and x[2] and x[2][0] == r:
                        arm = "ready_err" if c[1] == 1 else "continue"
                    elif arm == "continue":
                        y = x
                        while isinstance(y, tuple) and y and y[0] in ("ref", "deref"):
                            y = y[1]
                        if y[0] == "field" and y[1][0] == "downcast" and y[1][2] == "Continue" and y[1][1][0] in ("call", "pure") and \
                                short(y[1][1][1]) == "branch" and y[1][1][2] and y[1][1][2][0] == r:
                            arm = "ready_ok" if c[1] == 0 else "pending"
                if arm == "continue":
                    arm = None
            cx = pr[0][1].args[1] if len(pr[0][1].args) > 1 else None
            noop = cx is not None and pathq.mentions_call(cx, lambda y: short(y[1]) in ("noop_waker", "noop_waker_ref")) is not None
            rep.check(noop, "R12.2", "R12.2|%s|noop-context" % b.path, "readiness is polled with a no-op waker context (nothing is registered to wake)", b.loc(pr[0][1].bb))
            if arm == "ready_ok":
                seen["ready_ok"] += 1
                ok = len(ss) == 1 and ss[0][0] > pr[0][0] and len(pf) >= 1 and pf[0][0] > ss[0][0]
                # flush result ignored: no decision on it leads to an Err return
                flush_res = pf[0][1].result if pf else None
                flush_decided = any(e[0] == "discr" and pathq.mentions_call(e, lambda y: y == flush_res) is not None for (e, c, _, _) in p.conds) if flush_res else False
                rk = pathq.ret_kind(p)
                ss_ok = pathq.ok_decided(p, lambda x: x[0] in ("call", "pure") and short(x[1]) in ("start_send", "start_send_unpin"))
                if rk == "Ok":
                    rep.check(ok and not flush_decided and ss_ok, "R12.2", "R12.2|%s|ready-path" % b.path,
                              "Ready(Ok): exactly one start_send after the readiness check, then a best-effort poll_flush whose outcome is ignored (start_send %d, flush %d, flush outcome inspected %s)" % (len(ss), len(pf), flush_decided), b.loc())
            elif arm == "pending":
                seen["pending"] += 1
                full = p.ret is not None and "BufferFull" in show(p.ret)
                rep.check(not ss and full and pathq.ret_kind(p) == "Err", "R12.2", "R12.2|%s|pending-path" % b.path,
                          "Pending: nothing is encoded (start_send %d) and Err(BufferFull) is returned (%s)" % (len(ss), full), b.loc())
            elif arm == "ready" or arm is None:
                # the readiness result was never decided Ok (a Ready(Err) - the connection is broken at the high-water mark - passes for
                # "ready"): nothing may be encoded on such a path
                rep.check(not ss, "R12.2", "R12.2|%s|start-send-only-after-ready-ok" % b.path,
                          "start_send happens only on paths that decided poll_ready == Ready(Ok(())) (this path decided: %s)" % arm, b.loc())
            elif arm == "ready_err":
                seen["ready_err"] += 1
                rep.check(not ss and pathq.ret_kind(p) == "Err", "R12.2", "R12.2|%s|error-path" % b.path, "Ready(Err): nothing is encoded and the error is returned", b.loc())
        rep.floor("R12.2", "try_send arms seen (ready, pending, error)", len([k for k, v in seen.items() if v]), 3)
    # the error kinds try_send can produce are exactly the ones the publish loops go on after (R12.3): BufferFull, and the codec
    # error converted with From (ZmqError::Codec(..)); any other ZmqError variant built here would fall into the loops' catch-all
    # `Err(e) => return Err(e)` and end the publish for all remaining subscribers
    for b in ts:
        made = set()
        for p in pathq.paths(f, b):
            if p.end != "return" or pathq.ret_kind(p) != "Err":
                continue
            r = p.ret
            inner = r[4][0] if r[0] == "agg" and r[4] else r
            while inner[0] == "ref":
                inner = inner[1]
            if inner[0] == "agg" and inner[1] == "adt":
                made.add(inner[3])
            elif inner[0] in ("call", "pure") and short(inner[1]) in ("into", "from", "from_residual"):
                made.add("converted")
            else:
                made.add("other:" + show(inner)[:40])
        ok = made <= {"BufferFull", "Codec", "converted"}
        rep.check(ok, "R12.2", "R12.2|%s|error-kinds" % b.path,
                  "try_send fails only with BufferFull or the converted codec error - the kinds the publish loops continue after (built here: %s)" % sorted(made), b.loc())


DEPENDS = ['pubreader']     # foundation groups re-evaluated as necessary conditions (rules/found.py)


def run(ctx, f, rep):
    from . import found
    found.import_groups(ctx, f, rep, 'C12', DEPENDS)
    # ---- R12.1
    for suffix, label in (("r#pub::PubSocket", "PUB send"), ("xpub::XPubSocket", "XPUB send")):
        co = socket_coroutine(f, "SocketSend", "send", suffix)
        if co is None:
            rep.bad("R12.1", "R12.1|%s|anchor" % label, "%s not found (anchor-missing)" % label)
            continue
        aw = awaits(co)
        rep.floor("R12.1", "%s: suspension points" % label, len(aw), 2)
        for a in aw:
            ty = a["fut_ty"] or ""
            nm = a["poll_name"] or ""
            bad = any(x in ty or x in nm for x in ("futures::sink::", "futures_util::sink::", "FramedWrite", "SinkExt", "sink::Send", "sink::Feed", "sink::Flush"))
            on_map = "scc::" in ty or "scc::" in nm
            rep.check(not bad and on_map, "R12.1", "R12.1|%s|await|%s" % (label, short(nm) if nm else ty[:40]),
                      "%s awaits only the peer-map iterator, never a subscriber's sink (awaited: %s)" % (label, (nm or ty)[:90]), a["loc"])
        sc = pathq.scope(f, co)      # the send body and the private helpers it is written with
        writes = [(bb, fn) for k in sc for bb, t, fn in k.calls() if fn and fn["name"] in ("send", "feed", "flush", "send_all", "start_send", "poll_flush", "poll_ready", "close") and
                  ("Sink" in fn["path"] or "Sink" in (fn.get("trait") or ""))]
        rep.check(not writes, "R12.1", "R12.1|%s|no-direct-sink-use" % label, "%s uses no Sink method directly (%s)" % (label, [fn["name"] for _, fn in writes]), co.loc())
        ts = [bb for k in sc for bb, t, fn in k.calls() if fn and fn["name"] == "try_send" and "TrySend" in (fn.get("trait") or fn["path"])]
        rep.floor("R12.1", "%s: try_send call sites" % label, len(ts), 1)
        # ---- R12.3
        nfull = nio = nbp = 0
        for p in pathq.paths(f, co, max_visits=2):
            its = [(i, ev) for i, ev in pathq.calls(p, "next_async", "begin_async")]
            tss = [(i, ev) for i, ev in pathq.calls(p, "try_send") if "TrySend" in ev.name]
            removes = [(i, ev) for i, ev in pathq.calls(p, "peer_disconnected", "remove_sync", "remove_async", "remove_entry", "remove")
                       if "peer_disconnected" in ev.name or "scc" in ev.name or "OccupiedEntry" in ev.name]
            # removal only after the map iteration ended (last iterator step decided None)
            for ri, rev in removes:
                later_iter = [k for k, e2 in its if k > ri]
                held = False
                prev = [(k, e2) for k, e2 in its if k < ri]
                if prev:
                    k, e2 = prev[-1]
                    # entry from that step still live: the step's result was decided Some
                    held = any(c == ("eq", 1) and e[0] == "discr" and pathq.mentions_call(e[1], lambda y: y == e2.result) is not None and e[1][0] in ("field", "downcast")
                               for (e, c, _, _) in p.conds[:rev.ncond])
                    ended = any(c == ("eq", 0) and e[0] == "discr" and pathq.mentions_call(e[1], lambda y: y == e2.result) is not None and e[1][0] in ("field", "downcast")
                                for (e, c, _, _) in p.conds[:rev.ncond])
                    held = held and not ended
                rep.check(not held and not later_iter, "R12.3", "R12.3|%s|remove-after-iteration" % label,
                          "%s removes dead peers only after the iteration over the peer map has finished (entry guard held: %s, iteration continues afterwards: %s)" % (label, held, bool(later_iter)), co.loc(rev.bb))
            for n, (i, ev) in enumerate(tss):
                res = ev.result
                nxt0 = [k for k, e2 in its if k > i]
                after = p.conds[ev.ncond:(p.events[nxt0[0]].ncond if nxt0 else len(p.conds))]
                kind = None
                for (e, c, _, _) in after:
                    if e[0] == "discr" and e[1] == res and c[0] == "eq":
                        kind = "ok" if c[1] == 0 else "err"
                    if kind == "err" and e[0] == "discr" and e[1][0] == "field" and e[1][1][0] == "downcast" and e[1][1][1] == res and c[0] == "eq":
                        err_adt = c[1]
                        kind = ("errvariant", err_adt)
                if kind is None or kind == "ok":
                    continue
                # classify by the ZmqError variant: BufferFull / Codec(Io) / other
                txt_after = [show(e) for (e, c, _, _) in after]
                from . import tables
                zadt = tables.adt_by_suffix(f, "error::ZmqError")
                vname = None
                if isinstance(kind, tuple) and zadt:
                    vname = tables.variant_by_discr(zadt, kind[1])
                nxt = [k for k, e2 in its if k > i]
                returned_here = p.end == "return" and not nxt and pathq.ret_kind(p) == "Err"
                dead_push = [e2 for e2 in p.events[i + 1:(nxt[0] if nxt else len(p.events))] if e2.kind == "call" and short(e2.name) == "push" and "Vec" in e2.name]
                if vname == "BufferFull":
                    nfull += 1
                    rep.check(not returned_here and not dead_push, "R12.3", "R12.3|%s|buffer-full-continues" % label,
                              "%s: a full subscriber is skipped silently: the loop goes on (returns: %s) and the peer is not marked dead (%d)" % (label, returned_here, len(dead_push)), co.loc(ev.bb))
                elif vname == "Codec":
                    # is it the Io(..) arm with kind()==BrokenPipe ?
                    bp = None
                    ek = f.foreign_enums.get("std::io::ErrorKind", {})
                    bp_val = next((d for d, n in ek.items() if n == "BrokenPipe"), None)
                    for (e, c, _, _) in after:
                        if e[0] in ("pure", "call") and short(e[1]) in ("eq", "ne") and any("BrokenPipe" in show(a) for a in e[2]):
                            t = pathq.truth(c)
                            bp = t if short(e[1]) == "eq" else (not t)
                        # matches!(e.kind(), ErrorKind::BrokenPipe) / match e.kind() { BrokenPipe => .. }: a switch on the kind's discriminant
                        if e[0] == "discr" and bp_val is not None and pathq.mentions_call(e[1], lambda y: short(y[1]) == "kind" and "io::" in y[1]) is not None:
                            if c[0] == "eq":
                                bp = (c[1] == bp_val)
                            elif c[0] == "notin" and bp_val in c[1]:
                                bp = False
                    io_arm = any(e[0] == "discr" and c[0] == "eq" and "Codec" in show(e) and e[1][0] == "field" for (e, c, _, _) in after)
                    if bp is True:
                        nbp += 1
                        rep.check(len(dead_push) == 1 and not returned_here, "R12.3", "R12.3|%s|broken-pipe-marks-dead" % label,
                                  "%s: BrokenPipe marks that subscriber dead once and the loop goes on" % label, co.loc(ev.bb))
                    elif bp is False:
                        nio += 1
                        rep.check(not returned_here and not dead_push, "R12.3", "R12.3|%s|io-error-continues" % label,
                                  "%s: another I/O error on one subscriber does not end the publish (returns: %s)" % (label, returned_here), co.loc(ev.bb))
                    else:
                        # a Codec error that never asked for kind(): if it returns, an I/O error of some kind aborts the fan-out
                        if returned_here and any("Io" in s for s in txt_after):
                            rep.bad("R12.3", "R12.3|%s|io-error-continues" % label,
                                    "%s: an I/O error on one subscriber ends the publish for all remaining subscribers (returns Err without looking at the error kind)" % label, co.loc(ev.bb))
        rep.floor("R12.3", "%s: BufferFull arms on paths" % label, nfull, 1)
        rep.floor("R12.3", "%s: BrokenPipe arms on paths" % label, nbp, 1)
        rep.floor("R12.3", "%s: other-I/O-error arms on paths" % label, nio, 1)
    check_try_send(f, rep)
    # ---- R12.4
    hwm = [(b.path, b.loc(bb)) for b in f.bodies for bb, t, fn in b.calls() if fn and "high_water_mark" in fn["name"] and fn["name"].startswith("set_")]
    rep.check(not hwm, "R12.4", "R12.4|hwm-never-raised", "set_send_high_water_mark is called nowhere: the bound is the dependency's default (%s)" % hwm)
