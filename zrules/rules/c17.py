"""C17 - closing or dropping a socket stops its listeners and disconnects peers (structural clauses).

Decides (default features; thorough tier also the async-std configuration): (R17.1) each accept task owns its
listener, polls the stop receiver in the same select as accept(), leaves the loop on the stop arm whatever value
the stop channel resolved to (a fired and a dropped handle both end it), never awaits the per-connection
callback (close() joins this task), and - IPC - unlinks the bound path on every exit that has one; (R17.2)
close = unbind_all: walks every key of the bind table, collects each error; unbind awaits TaskHandle::shutdown,
which sends on the stop channel and then awaits the join handle; (R17.3) every socket type implements
Drop -> backend.shutdown(); every shutdown() clears the peer table (write halves) and - where the backend shares a receive
queue - the queue's streams (read halves), since that queue is also held by pending handshake tasks and by the streams' own
wakers; the PUB reader task is stopped through the stop sender stored
in the subscriber entry that shutdown() clears. Witness crate: close(self) consumes the socket.
Does NOT decide: port actually free, file actually gone, EOF actually observed, task counts (OS/runtime facts)."""
from ..sym import show, walk_expr
from ..common import short, trait_impls, coroutine_of
from .. import pathq
from . import names
from . import fq
from . import acc

EXPLANATION = __doc__
WITNESS = ['C17']
PER_CONFIG = True
NOT_DECIDED = "port free / file unlinked / EOF seen by peers / background tasks gone - kernel and runtime facts"
ASSUMPTIONS = ["dropping a tokio/async-std listener closes it", "dropping a oneshot::Sender resolves the receiver with Err(Canceled)",
               "clearing the scc map drops the write halves"]
RULES = {
    "R17.1": "accept task: select(accept, stop); stop arm always exits; callback spawned, not awaited; IPC unlinks on exit",
    "R17.2": "close -> unbind_all (all keys, errors collected) -> unbind -> shutdown = send stop + await join",
    "R17.3": "Drop -> shutdown() for all 9 socket types; shutdown clears the peer table and the shared receive queue's streams",
}

# socket types without a Drop impl that is still acceptable, with the reason (single named symbols only).
# Empty since fix c346de5: every socket type, PULL included, releases its peers on drop.
DROP_EXEMPT = {}


def run(ctx, f, rep):
    tasks = acc.accept_tasks(f)
    rep.floor("R17.1", "accept tasks (tcp, ipc)", len(tasks), 2)
    for b in tasks:
        acc.check_accept_loop(f, rep, "R17.1", b, "R17.1")
        owns = False
        parent = f.body(b.j.get("parent")) if b.j.get("parent") else None
        if parent is not None:
            for blk in parent.blocks:
                for st in blk["stmts"]:
                    if st["k"] == "assign" and st["rv"]["k"] == "aggregate" and st["rv"].get("def") == b.path:
                        owns = any(o["k"] == "move" and "Listener" in o["place"].get("ty", "") and not o["place"]["ty"].startswith("&") for o in st["rv"]["ops"])
        rep.check(owns, "R17.1", "R17.1|%s|owns-listener" % b.path, "the listener is owned by the accept task (dropping the task closes it)", b.loc())
        nstop = 0
        for p in pathq.paths(f, b, max_visits=2, inline_async=True):
            feeds = acc.arm_feeds(p, f)
            # decisions on which select arm fired, in order
            fired = []
            for (e, c, bb_, _) in p.conds:
                if e[0] == "discr" and e[1][0] == "field" and e[1][1][0] == "downcast" and e[1][1][2] == "Ready" and pathq.mentions_call(e[1], lambda y: short(y[1]) == "poll" and "PollFn" in y[1]) is not None and c[0] == "eq":
                    fired.append((feeds.get(c[1]), c[1], bb_))
            for n, (what, k, bb_) in enumerate(fired):
                if what == "stop":
                    nstop += 1
                    # after the stop arm: no further accept() on this path and the path ends in return
                    idx = [i for i, ev in enumerate(p.events) if ev.ncond is not None and ev.ncond > 0]
                    later_accepts = [ev for ev in p.events if ev.kind == "call" and short(ev.name) == "accept" and ev.ncond is not None and
                                     ev.ncond > [j for j, cnd in enumerate(p.conds) if cnd[2] == bb_][-1]]
                    acc_bbs = [bb2 for bb2, t2, fn2 in b.calls() if fn2 and fn2["name"] == "accept"]
                    cut_in_loop = p.end == "cut" and p.cut_at is not None and p.cut_at[0] == b.path and any(b.dominates(p.cut_at[1], a) for a in acc_bbs)
                    ok = not later_accepts and not cut_in_loop
                    rep.check(ok, "R17.1", "R17.1|%s|stop-arm-exits" % b.path,
                              "once the stop receiver resolves (fired or dropped) the accept loop is left: no further accept() (%d) and the task returns (%s)" % (len(later_accepts), p.end), b.loc(bb_))
            if "ipc" in b.path and p.end == "return":
                rm = [ev for i, ev in pathq.calls(p, "remove_file")]
                named = any(e[0] == "discr" and c == ("eq", 1) and "Option<std::path::PathBuf>" in str(e[2] if len(e) > 2 else "") for (e, c, _, _) in p.conds)
                unnamed = any(e[0] == "discr" and c == ("eq", 0) and "Option<std::path::PathBuf>" in str(e[2] if len(e) > 2 else "") for (e, c, _, _) in p.conds)
                # every way out: the file is unlinked, or the path option was looked at and found None (an early `return` on a
                # cancelled stop channel that skips the clean-up leaves the socket file behind after a plain drop)
                rep.check(bool(rm) or (unnamed and not named), "R17.1", "R17.1|%s|unlink-on-exit" % b.path,
                          "every exit of the IPC accept task unlinks the socket file, or found that there is no path to unlink (remove_file calls: %d, path option decided: %s)"
                          % (len(rm), "Some" if named else ("None" if unnamed else "never looked at")), b.loc())
        rep.floor("R17.1", "%s: stop-arm decisions on paths" % b.path.split("::")[2], nstop, 1)
    # ---- R17.2
    def co_of(suffix):
        xs = [b for b in f.bodies if b.path.endswith(suffix) and b.j.get("coroutine_kind")]
        return xs[0] if xs else None
    cl = co_of("Socket::close::{closure#0}")
    ua = co_of("Socket::unbind_all::{closure#0}")
    ub = co_of("Socket::unbind::{closure#0}")
    sd = co_of("TaskHandle::<T>::shutdown::{closure#0}")
    rep.check(all(x is not None for x in (cl, ua, ub, sd)), "R17.2", "R17.2|anchors", "close, unbind_all, unbind, TaskHandle::shutdown found")
    if cl is not None:
        ok = False
        for p in pathq.paths(f, cl):
            if p.end == "return" and p.ret is not None and pathq.mentions_call(p.ret, lambda y: pathq.is_poll_of(y, "unbind_all")) is not None:
                ok = True
        rep.check(ok, "R17.2", "R17.2|close-is-unbind_all", "close() returns what unbind_all() returned (awaited)", cl.loc())
    if ua is not None:
        keys_all = False
        collects = False
        for p in pathq.paths(f, ua, max_visits=2, inline_async=True):       # (a private helper may hold the loop)
            # the snapshot: keys().cloned().collect() / Vec::from_iter(keys()..) / extend(keys()..) / a loop pushing every key
            for i, ev in pathq.calls(p, "collect", "from_iter", "extend", "push", "push_back"):
                if any(pathq.mentions_call(a, lambda y: short(y[1]) == "keys") is not None and pathq.mentions_call(a, lambda y: short(y[1]) == "binds") is not None for a in ev.args):
                    keys_all = True
            for i, ev in pathq.calls(p, "push"):
                if "Vec" in ev.name and pathq.mentions_call(ev.args[1], lambda y: pathq.is_poll_of(y, "unbind")) is not None:
                    errd = any(e[0] == "discr" and c == ("eq", 1) and pathq.mentions_call(e[1], lambda y: pathq.is_poll_of(y, "unbind")) is not None and e[1][0] in ("field", "downcast") for (e, c, _, _) in p.conds[:ev.ncond])
                    collects = collects or errd
        rep.check(keys_all, "R17.2", "R17.2|unbind_all-all-keys", "unbind_all walks a snapshot of all keys of the bind table", ua.loc())
        rep.check(collects, "R17.2", "R17.2|unbind_all-collects-errors", "every Err from unbind is pushed to the returned vector", ua.loc())
        calls_unbind = any(fn and fn["name"] == "unbind" for k in pathq.scope(f, ua, allow_async=True) for bb, t, fn in k.calls())
        rep.check(calls_unbind, "R17.2", "R17.2|unbind_all-calls-unbind", "unbind_all unbinds each endpoint", ua.loc())
    if sd is not None:
        ok = False
        for p in pathq.paths(f, sd, inline_async=True):
            snd = [i for i, ev in pathq.calls(p, "send") if "oneshot" in ev.name or "Sender" in ev.name]
            joins = [i for i, ev in enumerate(p.events) if pathq.is_poll(ev) and "JoinHandle" in ev.name]
            if snd and joins and snd[0] < joins[0] and p.end == "return":
                ok = True
        rep.check(ok, "R17.2", "R17.2|shutdown-stop-then-join", "TaskHandle::shutdown sends on the stop channel and then awaits the join handle before returning", sd.loc())
    if ub is not None:
        ok = False
        for p in pathq.paths_keeping(f, ub, {sd.j.get("parent")} if sd is not None else set()):
            if p.end == "return" and p.ret is not None and pathq.mentions_call(p.ret, lambda y: pathq.is_poll_of(y, "shutdown")) is not None:
                ok = True
        rep.check(ok, "R17.2", "R17.2|unbind-awaits-shutdown", "unbind returns the awaited result of the handle's shutdown()", ub.loc())
    # ---- R17.3
    sockets = sorted({i["self_ty"] for i in f.impls if (i.get("trait") or "").endswith("::Socket") and i.get("trait", "").startswith(f.crate)})
    rep.floor("R17.3", "Socket impls", len(sockets), 9)
    drops = {b.j.get("impl_self"): b for b in f.bodies if b.j.get("name") == "drop" and (b.j.get("impl_trait") or "").endswith("ops::Drop")}
    ndrop = 0
    for s in sockets:
        if s in drops:
            ndrop += 1
            b = drops[s]
            sh = [fn for k in pathq.scope(f, b) for bb, t, fn in k.calls() if fn and fn["name"] == "shutdown"]
            rep.check(bool(sh), "R17.3", "R17.3|%s|drop-calls-shutdown" % s, "%s: Drop calls backend.shutdown()" % s, b.loc())
        elif s in DROP_EXEMPT:
            rep.ok("R17.3", "R17.3|%s|drop-exempt" % s, "%s has no Drop impl: exempt by name: %s" % (s, DROP_EXEMPT[s]))
        else:
            rep.bad("R17.3", "R17.3|%s|drop-missing" % s, "%s has no Drop impl: a socket dropped without close() keeps its peer connections open as long as anything else (a pending handshake, a reader task) holds the backend" % s)
    rep.floor("R17.3", "socket types with Drop", ndrop, 9)
    shut = trait_impls(f, "SocketBackend", "shutdown")
    rep.floor("R17.3", "SocketBackend::shutdown impls", len(shut), 6)
    for ty, b in sorted(shut.items()):
        # on EVERY path that returns (an early exit for a backend without a receive queue must not skip it)
        npaths = 0
        every = True
        for p in pathq.paths(f, b):
            if p.end != "return":
                continue
            npaths += 1
            if not [ev for i, ev in pathq.calls(p, "clear_sync", "clear_async", "clear") if "scc" in ev.name]:
                every = False
        rep.check(every and npaths > 0, "R17.3", "R17.3|%s|shutdown-clears-table" % ty, "%s::shutdown clears the peer table (drops every write half) on every path (%d)" % (ty, npaths), b.loc())
        # the read halves live in the receive queue shared with handshake tasks and with the streams' own wakers: a backend that
        # has such a queue must empty it in shutdown(), on every path where the queue exists
        has_queue = any(a for p_, a in f.adts.items() if p_.endswith("::" + ty.split("::")[-1]) and any(fq.inner_name(f) in x["ty"] for x in a["variants"][0]["fields"]))
        if has_queue:
            ok = True
            n = 0
            for p in pathq.paths(f, b):
                if p.end != "return":
                    continue
                n += 1
                q_none = any(e[0] == "discr" and c == ("eq", 0) and any(isinstance(x, tuple) and x and x[0] == "field" and fq.inner_name(f) in str(x[3]) for x in walk_expr(e[1])) for (e, c, _, _) in p.conds)
                cq = [ev for i, ev in pathq.calls(p, "clear", "drain", "retain", "take") if fq.inner_name(f) in ev.name or "HashMap" in ev.name and "scc" not in ev.name]
                if not q_none and not cq:
                    ok = False
            rep.check(ok and n > 0, "R17.3", "R17.3|%s|shutdown-clears-receive-queue" % ty,
                      "%s::shutdown also drops the peers' read halves held in the shared receive queue (otherwise a pending handshake or a parked stream waker keeps every connection open after close/drop)" % ty, b.loc())
    # QueueInner::clear really empties the stream map
    qc = [b for b in f.bodies if b.path.endswith("::clear") and fq.inner_name(f) in b.path]
    rep.floor("R17.3", "QueueInner::clear", len(qc), 1)
    for b in qc:
        ok = any(fn and fn["name"] == "clear" and "HashMap" in fn["path"] for bb, t, fn in b.calls())
        rep.check(ok, "R17.3", "R17.3|queue-clear-drops-streams", "QueueInner::clear empties the stream map (drops every read half)", b.loc())
    # PUB reader: its stop sender lives in the subscriber entry
    # (the record type of the PUB backend's subscriber table: the local struct holding a subscription list and a write half,
    # named in that table's type - whatever it and its module are called)
    sub = []
    for p_, a in f.adts.items():
        if p_.split("::")[-1] == names.of(f, "PubSocketBackend") and a["kind"] == "Struct":
            for fl in a["variants"][0]["fields"]:
                if "scc::HashMap<" in fl["ty"]:
                    sub = [a2 for p2, a2 in f.adts.items() if a2["kind"] == "Struct" and (p2.split("::", 1)[-1] in fl["ty"] or p2 in fl["ty"]) and
                           any("Vec<std::vec::Vec<u8>>" in x["ty"] for x in a2["variants"][0]["fields"])]
    ok = bool(sub) and any("oneshot::Sender" in x["ty"] for x in sub[0]["variants"][0]["fields"])
    rep.check(ok, "R17.3", "R17.3|pub-reader-stop-in-entry", "the PUB reader task's stop sender is stored in the subscriber entry, so clearing the table stops the task (and releases its Arc of the backend)")
