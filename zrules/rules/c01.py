"""C01 - framing conforms to ZMTP 3.0 (structural clauses).

Decides, on every control-flow path of the encoder (with the frame helper inlined), the command and
greeting serialisers and the decoder state machine: flag-bit table (writer = reader = RFC 23), width
selection by interval (<=255 -> 1 byte, >=256 -> 8 bytes big-endian), MORE on all but the last frame,
body = the measured frame, declared command length = bytes written, greeting layout, name tables.
Does NOT decide byte-for-byte round-trip equality of arbitrary messages (copying is trusted to `bytes`)."""
from ..sym import Sym, show, interval_of, walk_expr, PathExplosion
from ..facts import callee_name
from .. import pathq
from ..common import (trait_impls, short, len_base, slice_base, strip_casts, SOCKET_TYPES)
from . import tables

EXPLANATION = __doc__
WITNESS = ['C07']
NOT_DECIDED = "byte-for-byte equality of encode/decode for every message (value-level round trip)"
ASSUMPTIONS = ["bytes::BufMut::put_u8/put_u32/put_u64 write 1/4/8 bytes big-endian; extend_from_slice(x) writes len(x) bytes",
               "asynchronous-codec calls Encoder::encode once per item and Decoder::decode until Ok(None)"]
RULES = {
    "R01.1": "first byte of every frame = (MORE?1:0)|(LONG?2:0) for messages, 4|(LONG?2:0) for commands; reader masks 1/2/4 used for continue/width/command",
    "R01.2": "1-byte size only under guards implying len<=255; 8-byte size is put_u64 under guards implying len>=256; reader waits 8|1 and reads get_u64|get_u8 under the same flag",
    "R01.3": "MORE argument is a normal form of `index is not the last`",
    "R01.4": "per frame exactly [flags, size, body]; size and body derive from the same frame",
    "R01.5": "command: declared length = sum of bytes written after the header, name/property layout 1+n / 1+n+4+m",
    "R01.6": "greeting: 64 bytes, [0]=0xFF [9]=0x7F [10],[11]=version [12..]=mechanism [32]=as_server; default version (3,0); reader uses the same offsets",
    "R01.7": "READY carries Socket-Type = as_str(local type); Identity added iff configured; name tables writer = reader = RFC",
    "R01.8": "decoder side of the round trip: typestate table, accumulator kept in the codec, no stall (C02 R02.1-R02.3 re-evaluated)",
}

WRITE_SIZES = {"put_u8": 1, "put_i8": 1, "put_u16": 2, "put_u16_le": 2, "put_u32": 4, "put_u32_le": 4, "put_u64": 8,
               "put_u64_le": 8, "put_uint": None, "put_i64": 8, "put_i32": 4}
BODY_WRITES = ("extend_from_slice", "put_slice", "put", "extend", "unsplit")


def writes_to(p, dst):
    out = []
    for e in p.events:
        if e.kind != "call" or e.extra == "inlined" or not e.args:
            continue
        n = short(e.name)
        if (n in WRITE_SIZES or n in BODY_WRITES) and e.args[0] == dst:
            out.append(e)
    return out


def truth_of(p, expr):
    """Truth value the path decided for boolean expression expr (None if undecided)."""
    if expr[0] == "int":
        return bool(expr[1])
    for (e, c, _, _) in p.conds:
        if e == expr:
            if c[0] == "eq":
                return bool(c[1])
            if c == ("notin", (0,)):
                return True
            if c == ("notin", (1,)):
                return False
    return None


def more_normal_form(e, ordinal=None):
    """Is e one of the accepted forms of `idx is not the last index`? returns (ok, text).
    `ordinal`: position of this frame among the frames written on the path - a hand-kept counter folds to that constant."""
    e = strip_casts(e)
    if e[0] != "binop":
        # peekable().peek().is_some()
        if e[0] in ("pure", "call") and short(e[1]) == "is_some":
            inner = e[2][0]
            if any(isinstance(x, tuple) and x and x[0] in ("pure", "call") and short(x[1]) == "peek" for x in walk_expr(inner)):
                return True, "peek().is_some()"
        return False, show(e)
    op, a, b = e[1], e[2], e[3]

    def is_len(x):
        return len_base(x) is not None

    def is_idx(x):
        x = strip_casts(x)
        if ordinal is not None and x == ("int", ordinal):
            return True
        # field .0 of an Enumerate::next() item, or a counter local
        for y in walk_expr(x):
            if isinstance(y, tuple) and y and y[0] in ("call", "pure") and short(y[1]) == "next":
                return True
        return False

    def minus1(x):
        x = strip_casts(x)
        return x[0] == "binop" and x[1] == "Sub" and is_len(x[2]) and x[3] == ("int", 1)

    def plus1(x):
        x = strip_casts(x)
        if ordinal is not None and x == ("int", ordinal + 1):
            return True
        return x[0] == "binop" and x[1] == "Add" and is_idx(x[2]) and x[3] == ("int", 1)

    forms = [
        (op in ("Ne", "Lt") and is_idx(a) and not plus1(a) and minus1(b)),
        (op in ("Ne", "Gt") and minus1(a) and is_idx(b) and not plus1(b)),
        (op in ("Ne", "Lt") and plus1(a) and is_len(b)),
        (op in ("Ne", "Gt") and is_len(a) and plus1(b)),
    ]
    return any(forms), show(e)


def check_encoder(f, rep):
    encs = trait_impls(f, "asynchronous_codec::Encoder", "encode")
    rep.floor("R01.1", "Encoder::encode impl of the codec", len(encs), 1)
    for self_ty, enc in encs.items():
        sym = Sym(f, max_visits=3, inline=lambda fn: fn.get("local") and not fn.get("trait"), inline_depth=4)
        try:
            paths = sym.paths(enc)
        except PathExplosion as e:
            rep.bad("R01.1", "R01.1|encode|explosion", "cannot enumerate encoder paths: %s" % e, enc.loc())
            continue
        dst = ("arg", 3)
        frames_seen = 0
        widths = set()
        flagvals = set()
        more_exprs = {}
        for p in paths:
            if p.end != "return":
                continue
            ws = writes_to(p, dst)
            names = [short(w.name) for w in ws]
            if "unsplit" in names:
                continue   # greeting / command arm: checked via their serialisers
            if not ws:
                continue
            rep.count("encoder_paths_with_frames")
            # group writes by the inlined frame-writer call they belong to
            groups = []
            cur = None
            for e in p.events:
                if e.kind == "call" and e.extra == "inlined" and e.args and len(e.args) >= 3 and e.args[1] == dst:
                    cur = {"more": e.args[2], "call": e, "ws": []}
                    groups.append(cur)
                    more_exprs[show(e.args[2])] = (e.args[2], e, len(groups) - 1)
                elif e in ws:
                    if cur is None:
                        cur = {"more": None, "call": None, "ws": []}
                        groups.append(cur)
                    cur["ws"].append(e)
            for g in groups:
                grp = g["ws"]
                key = "R01.4|%s|frame-shape" % enc.path
                if len(grp) != 3 or short(grp[0].name) != "put_u8" or short(grp[1].name) not in WRITE_SIZES or short(grp[2].name) not in BODY_WRITES:
                    rep.bad("R01.4", key, "frame is not written as [flags byte, size field, body]: %s" % [short(x.name) for x in grp],
                            "%s bb%d" % (grp[0].fnpath, grp[0].bb) if grp else enc.loc())
                    continue
                rep.ok("R01.4", key, "each frame is written as [flags byte, size field, body]", "%s bb%d" % (grp[0].fnpath, grp[0].bb))
                frames_seen += 1
                fl, sz, body = grp
                lb = len_base(sz.args[1])
                bb_ = slice_base(body.args[1])
                if lb is None or lb != bb_:
                    rep.bad("R01.4", "R01.4|%s|size-body-mismatch" % enc.path,
                            "size field does not measure the body that is written: size=%s body=%s" % (show(sz.args[1]), show(body.args[1])),
                            "%s bb%d" % (sz.fnpath, sz.bb))
                    continue
                rep.ok("R01.4", "R01.4|%s|size-body-match" % enc.path, "size field measures the body that is written", "%s bb%d" % (sz.fnpath, sz.bb))
                lenexpr = strip_casts(sz.args[1])
                iv = interval_of(p.conds, lenexpr)
                szname = short(sz.name)
                if szname == "put_u8":
                    long_ = False
                    rep.check(iv.within(0, 255), "R01.2", "R01.2|%s|short-size-bound" % enc.path,
                              "1-byte size written only when guards imply len<=255 (interval %s)" % iv, "%s bb%d" % (sz.fnpath, sz.bb))
                elif szname == "put_u64":
                    long_ = True
                    rep.check(iv.within(256, None), "R01.2", "R01.2|%s|long-size-bound" % enc.path,
                              "8-byte size written only when guards imply len>=256 (interval %s)" % iv, "%s bb%d" % (sz.fnpath, sz.bb))
                else:
                    rep.bad("R01.2", "R01.2|%s|size-writer" % enc.path,
                            "size field written with %s; ZMTP needs put_u8 (short) or big-endian put_u64 (long)" % szname,
                            "%s bb%d" % (sz.fnpath, sz.bb))
                    continue
                widths.add(szname)
                fv = fl.args[1]
                more_e = g["more"]
                if more_e is None:
                    rep.bad("R01.1", "R01.1|%s|more-anchor" % enc.path, "cannot find the MORE argument of the frame writer (anchor-missing)", enc.loc())
                    continue
                mt = truth_of(p, more_e)
                if fv[0] != "int" or mt is None:
                    rep.bad("R01.1", "R01.1|%s|flags-not-constant" % enc.path,
                            "flags byte is not a constant on this path (flags=%s, more decided=%s): guard not recognised" % (show(fv), mt),
                            "%s bb%d" % (fl.fnpath, fl.bb))
                    continue
                want = (1 if mt else 0) | (2 if long_ else 0)
                flagvals.add((mt, long_, fv[1]))
                rep.check(fv[1] == want, "R01.1", "R01.1|%s|msg-flags|more=%d|long=%d" % (enc.path, mt, long_),
                          "message frame flags = 0x%02x, RFC 23 says 0x%02x for more=%s long=%s" % (fv[1], want, mt, long_),
                          "%s bb%d" % (fl.fnpath, fl.bb))
        rep.floor("R01.1", "message-frame flag combinations reached (more x long)", len(flagvals), 4)
        rep.floor("R01.2", "size writers seen (put_u8, put_u64)", len(widths), 2)
        rep.floor("R01.3", "MORE argument expression", len(more_exprs), 1)
        for txt, (e, ev, ordinal) in more_exprs.items():
            ok, t = more_normal_form(e, ordinal)
            rep.check(ok, "R01.3", "R01.3|%s|more-normal-form" % enc.path,
                      "MORE argument `%s` is %sa normal form of `frame index is not the last`" % (t, "" if ok else "NOT "),
                      "%s bb%d" % (ev.fnpath, ev.bb))


# ------------------------------------------------------------------ command serialiser
def linear(e, acc=None, sign=1):
    """Linear form of an integer expression over LEN(x) terms: {term: coef, 1: const}."""
    acc = {} if acc is None else acc
    e = strip_casts(e)
    if e[0] == "int":
        acc[1] = acc.get(1, 0) + sign * e[1]
    elif e[0] == "binop" and e[1] in ("Add", "Sub"):
        linear(e[2], acc, sign)
        linear(e[3], acc, sign if e[1] == "Add" else -sign)
    elif e[0] == "field" and e[1][0] == "agg" and e[1][1] == "tuple":
        linear(e[1][4][0], acc, sign)
    else:
        lb = len_base(e)
        t = ("LEN", canon(lb)) if lb is not None else ("?", canon(e))
        acc[t] = acc.get(t, 0) + sign
    return acc


def canon(e):
    """Canonical text for an expression with call uids erased and iterator items named by position."""
    return show_canon(e)


def show_canon(e):
    if not isinstance(e, tuple) or not e:
        return str(e)
    if e[0] in ("call", "pure"):
        n = short(e[1])
        if n in ("iter", "into_iter", "iter_mut", "by_ref", "as_ref", "as_bytes", "as_str", "deref", "borrow") and e[2]:
            return show_canon(e[2][0])       # views / iterator adaptors over the same collection
        return "%s(%s)" % (n, ",".join(show_canon(a) for a in e[2]))
    if e[0] in ("ref", "deref", "cast"):
        return show_canon(e[1])
    if e[0] == "field":
        return "%s.%s" % (show_canon(e[1]), e[2])
    if e[0] == "downcast":
        return "%s@%s" % (show_canon(e[1]), e[2])
    return show(e)


def check_command_writer(f, rep):
    cands = [b for b in f.bodies if b.j.get("name") == "from" and (b.j.get("impl_trait") or "").endswith("convert::From")
             and "BytesMut" in (b.j.get("impl_self") or "") and "ZmqCommand" in b.path]
    rep.floor("R01.5", "From<command> for BytesMut serialiser", len(cands), 1)
    for b in cands:
        sym = Sym(f, max_visits=2, inline=pathq.default_inline(f), inline_depth=3)
        paths = [p for p in sym.paths(b) if p.end == "return"]
        checked = 0
        flags_seen = set()
        for p in paths:
            ws = [e for e in p.events if e.kind == "call" and (short(e.name) in WRITE_SIZES or short(e.name) in BODY_WRITES)]
            if len(ws) < 2:
                continue
            # iterations of each loop: count `next` calls that took the Some branch per call site
            per_site = {}
            for (ce, c, bb, fp) in p.conds:
                if ce[0] == "discr" and ce[1][0] == "call" and short(ce[1][1]) == "next" and (c == ("eq", 1)):
                    site = [e.bb for e in p.events if e.kind == "call" and e.result == ce[1]]
                    per_site[site[0] if site else -1] = per_site.get(site[0] if site else -1, 0) + 1
            its = sorted(per_site.values())
            sites = len({e.bb for e in p.events if e.kind == "call" and short(e.name) == "next"})
            if sites >= 2 and (len(its) not in (0, sites) or len(set(its)) > 1):
                continue   # the two loops walk the same map: unequal iteration counts are infeasible
            fl, sz = ws[0], ws[1]
            rest = ws[2:]
            if short(fl.name) != "put_u8" or fl.args[1][0] != "int":
                rep.bad("R01.1", "R01.1|%s|cmd-flags-not-constant" % b.path, "command flags byte is not a constant: %s" % show(fl.args[1]), b.loc(fl.bb))
                continue
            declared = strip_casts(sz.args[1])
            iv = interval_of(p.conds, declared)
            szname = short(sz.name)
            if szname == "put_u8":
                long_ = False
                rep.check(iv.within(0, 255), "R01.2", "R01.2|%s|cmd-short-size-bound" % b.path,
                          "command 1-byte size only when guards imply len<=255 (interval %s)" % iv, b.loc(sz.bb))
            elif szname == "put_u64":
                long_ = True
                rep.check(iv.within(256, None), "R01.2", "R01.2|%s|cmd-long-size-bound" % b.path,
                          "command 8-byte size only when guards imply len>=256 (interval %s)" % iv, b.loc(sz.bb))
            else:
                rep.bad("R01.2", "R01.2|%s|cmd-size-writer" % b.path, "command size written with %s" % szname, b.loc(sz.bb))
                continue
            want = 4 | (2 if long_ else 0)
            flags_seen.add(fl.args[1][1])
            rep.check(fl.args[1][1] == want, "R01.1", "R01.1|%s|cmd-flags|long=%d" % (b.path, long_),
                      "command frame flags = 0x%02x, RFC 23 says 0x%02x (long=%s)" % (fl.args[1][1], want, long_), b.loc(fl.bb))
            # declared length vs bytes written after the header
            dl = linear(declared)
            wl = {}
            layout = []
            for w in rest:
                n = short(w.name)
                if n in WRITE_SIZES and WRITE_SIZES[n] is not None:
                    wl[1] = wl.get(1, 0) + WRITE_SIZES[n]
                    lb = len_base(w.args[1])
                    layout.append((n, canon(lb) if lb is not None else show(w.args[1])))
                elif n in BODY_WRITES:
                    base = slice_base(w.args[1])
                    t = ("LEN", canon(base))
                    wl[t] = wl.get(t, 0) + 1
                    layout.append((n, canon(base)))
                else:
                    wl[("?", n)] = 1
            dl = {k: v for k, v in dl.items() if v != 0}
            wl = {k: v for k, v in wl.items() if v != 0}
            checked += 1
            rep.check(dl == wl, "R01.5", "R01.5|%s|declared-eq-written|iters=%s" % (b.path, its),
                      "declared command length %s %s bytes written %s" % (fmt_lin(dl), "==" if dl == wl else "!=", fmt_lin(wl)), b.loc(sz.bb))
            # layout: each length-prefixed field: put_u8(len x), bytes(x) ; put_u32(len y), bytes(y)
            ok_layout = True
            j = 0
            seq = []
            while j + 1 < len(layout):
                a, c = layout[j], layout[j + 1]
                if a[0] in ("put_u8", "put_u32") and c[0] in BODY_WRITES and a[1] == c[1]:
                    seq.append(a[0])
                    j += 2
                else:
                    ok_layout = False
                    break
            if j != len(layout):
                ok_layout = False
            want_seq = ["put_u8"] + ["put_u8", "put_u32"] * ((len(seq) - 1) // 2) if seq else []
            rep.check(ok_layout and seq == want_seq and len(seq) >= 1, "R01.5", "R01.5|%s|field-layout|iters=%s" % (b.path, its),
                      "command body layout is name(1+n) then per property name(1+n) value(4+m): %s" % (seq if ok_layout else layout), b.loc())
        rep.floor("R01.5", "command serialiser paths with matched loop iterations", checked, 2)
        rep.floor("R01.1", "command flag values seen (0x04, 0x06)", len(flags_seen), 2)


def fmt_lin(d):
    return " + ".join(("%s*%s" % (v, k[1]) if k != 1 else str(v)) for k, v in sorted(d.items(), key=lambda kv: str(kv[0])))


# ------------------------------------------------------------------ greeting
def check_greeting(f, rep):
    ws = [b for b in f.bodies if b.j.get("name") == "from" and "BytesMut" in (b.j.get("impl_self") or "") and "ZmqGreeting" in b.path]
    rep.floor("R01.6", "From<greeting> for BytesMut serialiser", len(ws), 1)
    writer_idx = None
    for b in ws:
        sym = Sym(f, max_visits=2, inline=pathq.default_inline(f), inline_depth=3)
        paths = [p for p in sym.paths(b) if p.end == "return"]
        rep.floor("R01.6", "greeting serialiser paths", len(paths), 1)
        for p in paths:
            stores = {}
            arr = None
            for e in p.events:
                if e.kind == "store" and e.extra and e.extra["k"] == "assign":
                    pl = e.extra["place"]
                    if len(pl["p"]) == 1 and pl["p"][0]["k"] == "index" and "[u8; " in f.body(e.fnpath).local_ty(pl["l"]):
                        arr = (e.fnpath, pl["l"])       # the array may live in a private helper that was looked through
                        idx = e.args[0] if e.args else None
                        if idx and idx[0] == "int":
                            stores[idx[1]] = e.value
                        else:
                            stores["?"] = e.value
            if arr is None:
                rep.bad("R01.6", "R01.6|%s|array-anchor" % b.path, "no byte array with indexed stores found (anchor-missing)", b.loc())
                continue
            aty = f.body(arr[0]).local_ty(arr[1])
            rep.check(aty == "[u8; 64]", "R01.6", "R01.6|%s|length" % b.path, "greeting buffer type %s (RFC: 64 bytes)" % aty, b.loc())
            # zero-initialised
            init = [e for e in p.events if False]
            want_const = {0: 0xFF, 9: 0x7F}
            for i, v in want_const.items():
                got = stores.get(i)
                rep.check(got == ("int", v), "R01.6", "R01.6|%s|byte%d" % (b.path, i),
                          "greeting[%d] = %s (RFC: 0x%02X)" % (i, show(got) if got else "unset", v), b.loc())
            for i, fld in ((10, 0), (11, 1)):
                got = stores.get(i)
                ok = got is not None and got[0] == "field" and got[2] in (fld, str(fld)) and got[1][0] == "field" and got[1][2] == "version"
                rep.check(ok, "R01.6", "R01.6|%s|byte%d" % (b.path, i), "greeting[%d] = %s (want version.%d)" % (i, show(got) if got else "unset", fld), b.loc())
            got = stores.get(32)
            ok = got is not None and any(isinstance(x, tuple) and x and x[0] == "field" and x[2] == "as_server" for x in walk_expr(got))
            rep.check(ok, "R01.6", "R01.6|%s|byte32" % b.path, "greeting[32] = %s (want as_server)" % (show(got) if got else "unset"), b.loc())
            extra = sorted(k for k in stores if k not in (0, 9, 10, 11, 32))
            rep.check(not extra, "R01.6", "R01.6|%s|no-other-bytes" % b.path, "no other constant-index stores (filler stays zero): extra=%s" % extra, b.loc())
            # mechanism range starts at 12 and has the mechanism's length
            rng = [e for e in p.events if e.kind == "call" and short(e.name) in ("index_mut", "get_mut") and e.args and len(e.args) > 1]
            okr = False
            for e in rng:
                r = e.args[1]
                if r[0] == "agg" and r[4] and r[4][0] == ("int", 12):
                    end = r[4][1] if len(r[4]) > 1 else None
                    lin = linear(end) if end else {}
                    if lin.get(1) == 12 and any(k != 1 and v == 1 for k, v in lin.items()):
                        okr = True
            # the same range as a slice of a tail: `data[12..][..len(mechanism)]`
            for e in rng:
                r = e.args[1]
                recv = e.args[0]
                while isinstance(recv, tuple) and recv and recv[0] in ("ref", "deref"):
                    recv = recv[1]
                if r[0] == "agg" and (r[2] or "").endswith("RangeTo") and len(r[4]) == 1 and isinstance(recv, tuple) and recv and \
                        recv[0] in ("call", "pure") and short(recv[1]) in ("index_mut", "index") and len(recv[2]) > 1:
                    fr = recv[2][1]
                    while isinstance(fr, tuple) and fr and fr[0] == "ref":
                        fr = fr[1]
                    lin = linear(r[4][0])
                    if fr[0] == "agg" and (fr[2] or "").endswith("RangeFrom") and fr[4] and fr[4][0] == ("int", 12) and \
                            not lin.get(1) and any(k != 1 and v == 1 for k, v in lin.items()):
                        okr = True
            rep.check(okr, "R01.6", "R01.6|%s|mechanism-range" % b.path, "mechanism copied to [12 .. 12+len(mechanism)]", b.loc())
            # whole array appended once
            outw = [e for e in p.events if e.kind == "call" and short(e.name) in BODY_WRITES]
            rep.check(len(outw) == 1, "R01.6", "R01.6|%s|single-append" % b.path, "array appended to the output exactly once (%d)" % len(outw), b.loc())
            writer_idx = set(k for k in stores if isinstance(k, int)) | {12}
    # zero initialisation: Repeat rvalue with 0
    for b in ws:
        z = False
        for blk in [blk for sb in pathq.scope(f, b) for blk in sb.blocks]:
            for st in blk["stmts"]:
                if st["k"] == "assign" and st["rv"]["k"] == "repeat" and st["rv"]["op"].get("int") == 0:
                    z = True
        rep.check(z, "R01.6", "R01.6|%s|zero-init" % b.path, "greeting buffer is zero-initialised ([0; 64])", b.loc())
    # default version
    for b in f.bodies:
        if b.j.get("name") == "default" and "ZmqGreeting" in (b.j.get("impl_self") or ""):
            sym = Sym(f)
            for p in sym.paths(b):
                if p.end == "return" and p.ret[0] == "agg":
                    flds = dict(zip(tables.adt_fields(f, p.ret[2]), p.ret[4]))
                    v = flds.get("version")
                    ok = v is not None and v[0] == "agg" and v[4] == (("int", 3), ("int", 0))
                    rep.check(ok, "R01.6", "R01.6|default-version", "default greeting version = %s (want (3, 0))" % (show(v) if v else None), b.loc())
                    a = flds.get("as_server")
                    rep.check(a == ("int", 0), "R01.6", "R01.6|default-as-server", "default as_server = %s (want false)" % (show(a) if a else None), b.loc())
    # reader offsets
    rd = [b for b in f.bodies if b.j.get("name") == "try_from" and "ZmqGreeting" in (b.j.get("impl_self") or "")]
    rep.floor("R01.6", "TryFrom<Bytes> for greeting parser", len(rd), 1)
    for b in rd:
        sym = Sym(f, max_visits=2, inline=pathq.default_inline(f), inline_depth=3)
        oks = [p for p in sym.paths(b) if p.end == "return" and p.ret and p.ret[0] == "agg" and p.ret[3] == "Ok"]
        rep.floor("R01.6", "greeting parser Ok paths", len(oks), 1)
        for p in oks:
            idxs = set()
            for (e, c, _, _) in p.conds:
                for x in walk_expr(e):
                    if isinstance(x, tuple) and x and x[0] == "index" and x[2][0] == "int":
                        idxs.add(x[2][1])
            for x in walk_expr(p.ret):
                if isinstance(x, tuple) and x and x[0] == "index" and x[2][0] == "int":
                    idxs.add(x[2][1])
            rng = [e for e in p.events if e.kind == "call" and short(e.name) == "index" and e.args and len(e.args) > 1 and e.args[1][0] == "agg"]
            r = None
            for e in rng:
                a = e.args[1][4]
                if len(a) == 2 and a[0][0] == "int" and a[1][0] == "int":
                    r = (a[0][1], a[1][1])
                # `value[12..][..20]`: the same bytes as a slice of a tail
                recv = e.args[0]
                while isinstance(recv, tuple) and recv and recv[0] in ("ref", "deref"):
                    recv = recv[1]
                if len(a) == 1 and a[0][0] == "int" and (e.args[1][2] or "").endswith("RangeTo") and isinstance(recv, tuple) and recv and \
                        recv[0] in ("call", "pure") and short(recv[1]) == "index" and len(recv[2]) > 1:
                    fr = recv[2][1]
                    while isinstance(fr, tuple) and fr and fr[0] == "ref":
                        fr = fr[1]
                    if fr[0] == "agg" and (fr[2] or "").endswith("RangeFrom") and len(fr[4]) == 1 and fr[4][0][0] == "int":
                        r = (fr[4][0][1], fr[4][0][1] + a[0][1])
            rep.check(idxs == {0, 9, 10, 11, 32}, "R01.6", "R01.6|%s|reader-offsets" % b.path,
                      "greeting parser reads bytes %s (writer/RFC: [0, 9, 10, 11, 32])" % sorted(idxs), b.loc())
            rep.check(r == (12, 32), "R01.6", "R01.6|%s|reader-mechanism-range" % b.path, "mechanism parsed from bytes %s (RFC: 12..32)" % (r,), b.loc())
            l64 = any(e[0] == "binop" and e[1] in ("Ne", "Eq") and len_base(e[2]) is not None and e[3] == ("int", 64) for (e, c, _, _) in p.conds)
            rep.check(l64, "R01.6", "R01.6|%s|reader-length" % b.path, "greeting parser requires length 64", b.loc())
            break


from ..common import mask_of


def arm_blocks(body, entry, other):
    """Blocks executed only when control enters `entry` rather than `other` (dominated by the arm entry)."""
    return {b for b in body.reachable(entry) if body.dominates(entry, b)} - {other}


def check_decoder(f, rep):
    """Reader side of the flag table, from the abstract interpretation of the decoder's state machine (shared with C03):
    every effect of a decoding step is related to the header bits whose truth is known on that path - decided in this step or
    carried over from the step that read the flags. Private helpers are looked through; nothing depends on field names."""
    from . import c03
    from .c02 import decoder_roles
    decs = trait_impls(f, "asynchronous_codec::Decoder", "decode")
    rep.floor("R01.1", "Decoder::decode impl of the codec", len(decs), 1)
    for self_ty, dec in decs.items():
        roles_ = decoder_roles(f, self_ty)
        try:
            paths, states = c03.decoder_paths(f, dec, self_ty)
        except PathExplosion as e:
            paths, states = None, None
        if not paths or roles_ is None:
            rep.bad("R01.1", "R01.1|%s|decoder-states" % dec.path, "decoder state machine could not be evaluated (anchor-missing)", dec.loc())
            continue
        rep.count("decoder_step_paths", len(paths))
        occ = {}      # effect -> list of {K: truth} known on the path where it happens
        masks_seen = set()
        for p in paths:
            if p.end not in ("return", "stop"):
                continue
            known = dict(p.abstract_in[2]) if getattr(p, "abstract_in", None) else {}
            for (e, c, _, _) in p.conds:
                tr = c[1] if c[0] == "eq" else (1 if c == ("notin", (0,)) else (0 if c == ("notin", (1,)) else None))
                if tr is None:
                    continue
                if e[0] == "flag":
                    known[e[1]] = bool(tr)
                else:
                    m = mask_of(e)
                    if m is not None:
                        if isinstance(m, tuple):
                            known[m[1]] = not bool(tr)
                        else:
                            known[m] = bool(tr)
            masks_seen |= set(known)
            effs = set()
            for ev in p.events:
                if ev.kind == "store" and ev.place.endswith("." + roles_["counter"]) and ev.value in (("int", 8), ("int", 1)):
                    # only the width announced right after the flags byte: the path also read the flags in this step
                    # (the flags byte consumed as `get_u8()`, or read in place and skipped with `advance(1)`)
                    if any(e2.kind == "call" and (short(e2.name) == "get_u8" or (short(e2.name) == "advance" and len(e2.args or ()) > 1 and strip_casts(e2.args[1]) == ("int", 1)))
                           for e2 in p.events[:p.events.index(ev)]) and p.abstract_in[0][3] != roles_["enum"]["variants"][-1]["name"]:
                        if any(x[0] == "flag" or mask_of(x) is not None for (x, c2, _, _) in p.conds):
                            effs.add("wait%d" % ev.value[1])
                if ev.kind == "call" and ev.extra != "inlined":
                    n = short(ev.name)
                    # a size read = a wire read whose value becomes the counter
                    if n in ("get_u64", "get_u64_le", "get_u32", "get_u16", "get_uint", "get_u8", "get_i64"):
                        cv = p.cell(("arg", 1), roles_["counter"])
                        if cv is not None and any(y == ev.result for y in walk_expr(cv)):
                            effs.add("get_u64" if n == "get_u64" else ("get_u8_size" if n == "get_u8" else "size_read:" + n))
                    if n == "try_from" and "ZmqCommand" in ev.name:
                        effs.add("command_parse")
                    if n in ("take", "replace") and ev.args and any(isinstance(x, tuple) and x and x[0] == "field" and x[2] == roles_["acc"] for x in walk_expr(ev.args[0])):
                        effs.add("yield_message")
            for ef in effs:
                occ.setdefault(ef, []).append(dict(known))
        rep.floor("R01.1", "header bits tested by the decoder", len(masks_seen), 3)
        roles = {}
        for ef, lst in occ.items():
            common = None
            for k in lst:
                items = set(k.items())
                common = items if common is None else (common & items)
            roles[ef] = common or set()
        want = {
            "wait8": (2, True), "wait1": (2, False), "get_u64": (2, True), "get_u8_size": (2, False),
            "command_parse": (4, True), "yield_message": (1, False),
        }
        for ef, (k, sem) in want.items():
            got = roles.get(ef)
            if got is not None and ef in ("yield_message", "command_parse", "get_u64", "get_u8_size"):
                # bits decided in earlier steps ride along; only a contradiction or a missing bit matters
                got = {(kk, tt) for (kk, tt) in got if kk == k or ef != "yield_message" and False} | ({(k, sem)} & got)
            rep.check(got is not None and (k, sem) in got and (k, not sem) not in got and len({kk for kk, _ in got}) == 1,
                      "R01.1" if ef in ("command_parse", "yield_message") else "R01.2",
                      "R01.x|%s|reader|%s" % (dec.path, ef),
                      "decoder effect `%s` happens exactly under (flags & 0x%02x != 0) = %s (bits known on all such paths: %s; occurrences %d)" % (
                          ef, k, sem, sorted(roles.get(ef) or []), len(occ.get(ef, []))), dec.loc())
        for ef in roles:
            if ef.startswith("size_read:"):
                rep.bad("R01.2", "R01.2|%s|reader-size-read|%s" % (dec.path, ef), "decoder reads a size field with %s (ZMTP: get_u8 / big-endian get_u64)" % ef[10:], dec.loc())


def header_field_index(f, adt_path, name):
    a = f.adts.get(adt_path) if adt_path else None
    if not a:
        return None
    for i, fl in enumerate(a["variants"][0]["fields"]):
        if fl["name"] == name or str(i) == str(name):
            return i
    return None


def arm_effects(body, blocks):
    out = set()
    for b in blocks:
        blk = body.blocks[b]
        for st in blk["stmts"]:
            if st["k"] == "assign" and st["place"]["p"] and st["place"]["ty"] == "usize" and st["rv"]["k"] == "use" and "int" in st["rv"]["op"]:
                v = st["rv"]["op"]["int"]
                if v in (8, 1):
                    out.add("wait%d" % v)
            if st["k"] == "assign" and not st["place"]["p"] and body.local_ty(st["place"]["l"]) == "usize" and st["rv"]["k"] == "use" and st["rv"]["op"].get("int") in (8, 1):
                out.add("wait%d" % st["rv"]["op"]["int"])
        t = blk["term"]
        if t["k"] == "call" and t["func"].get("fn"):
            fn = t["func"]["fn"]
            n = fn["name"]
            if n == "get_u64":
                out.add("get_u64")
            elif n == "get_u8":
                out.add("get_u8_size")
            elif n.startswith("get_u") or n.startswith("get_i"):
                out.add("size_read:" + n)
            elif n == "try_from" and any("ZmqCommand" in a for a in fn.get("args", [])):
                out.add("command_parse")
            elif n == "take" and any("ZmqMessage" in a for a in fn.get("args", [])):
                out.add("yield_message")
    return out


def check_ready(f, rep):
    # ZmqCommand::ready inserts Socket-Type = as_str(socket)
    cands = [b for b in f.bodies if b.kind == "AssocFn" and "ZmqCommand" in (b.j.get("impl_self") or "") and b.j.get("impl_trait") is None]
    found = 0
    for b in cands:
        sym = Sym(f)
        for p in sym.paths(b):
            if p.end != "return":
                continue
            for e in p.events:
                if e.kind == "call" and short(e.name) == "insert" and len(e.args) >= 3:
                    k = [x for x in walk_expr(e.args[1]) if isinstance(x, tuple) and x and x[0] == "const"]
                    if k and k[0][1].strip('"') == "Socket-Type" or (k and "Socket-Type" in k[0][1]):
                        found += 1
                        v = e.args[2]
                        ok = any(isinstance(x, tuple) and x and x[0] in ("pure", "call") and short(x[1]) == "as_str" and x[2] and x[2][0] in (("arg", 1), ("ref", ("arg", 1))) for x in walk_expr(v))
                        rep.check(ok, "R01.7", "R01.7|%s|socket-type-value" % b.path, "READY Socket-Type value = %s (want as_str(local socket type))" % show(v), b.loc(e.bb))
                    elif k and b.j.get("name") == "ready":
                        rep.bad("R01.7", "R01.7|%s|socket-type-name" % b.path, "READY inserts property %s, RFC 23 name is Socket-Type" % k[0][1], b.loc(e.bb))
                        found += 1
    rep.floor("R01.7", "READY constructor inserting Socket-Type", found, 1)
    # name tables
    tables.check_name_table(f, rep, "R01.7", "SocketType", SOCKET_TYPES, want_reader=True)
    tables.check_name_table(f, rep, "R01.6", "ZmqMechanism", ["NULL", "PLAIN", "CURVE"], want_reader=True, maxlen=20)
    tables.check_name_table(f, rep, "R01.7", "ZmqCommandName", ["READY"], want_reader=False)
    check_identity_announced(f, rep)


PROPS_TY = "std::option::Option<std::collections::HashMap<std::string::String, bytes::Bytes"


def is_identity_option(x):
    """the configured identity: a field of type Option<PeerIdentity> (of the socket options), by type"""
    return x[0] == "field" and str(x[3]).startswith("std::option::Option<") and "PeerIdentity" in str(x[3])


def _identity_insert(ev, value_pred):
    """an insert(map, key, value) whose key is the text "Identity" and whose value derives from the configured identity"""
    if not (ev.kind == "call" and short(ev.name) == "insert" and len(ev.args) >= 3):
        return False
    key_ok = any(tables.const_str(y) == "Identity" for y in walk_expr(ev.args[1]))
    val_ok = any(isinstance(y, tuple) and y and value_pred(y) for y in walk_expr(ev.args[2]))
    return key_ok and val_ok


def check_identity_announced(f, rep):
    """R01.7 (identity clause): the property map handed to the READY exchange is Some(map with "Identity" -> the configured value)
    exactly when the socket's identity option is Some, and None otherwise. The exchange is found by its signature (an async fn
    taking Option<HashMap<String, Bytes>>), the option by its type; both path-sensitive and `option.map(|id| ..)` forms are read."""
    exch = {}
    for path, s in f.fns.items():
        for i, ty in enumerate(s.get("inputs", [])):
            if ty.startswith(PROPS_TY) and s.get("is_async"):
                exch[path] = i
    drivers = [b for b in f.bodies if b.j.get("coroutine_kind") and any(fn and callee_name(fn) in exch for _, _, fn in b.calls())]
    rep.floor("R01.7", "handshake drivers calling the READY exchange (found by signature)", len(drivers), 1)
    for b in drivers:
        n = 0
        for p in pathq.paths(f, b):
            for i, ev in pathq.calls(p):
                if ev.fnpath not in exch and ev.name not in exch:
                    continue
                n += 1
                a = ev.args[exch.get(ev.fnpath, exch.get(ev.name))]
                while a[0] == "ref":
                    a = a[1]
                st = pathq.option_decided(p, is_identity_option, ev.ncond)
                if a[0] == "agg" and a[3] == "None":
                    rep.check(st == 0, "R01.7", "R01.7|identity-iff-configured", "no properties are announced only on paths where the identity option was decided None (decided: %s)" % st, b.loc(ev.bb))
                elif a[0] == "agg" and a[3] == "Some":
                    ins = [e for e in p.events[:i] if _identity_insert(e, is_identity_option)]
                    rep.check(len(ins) >= 1, "R01.7", "R01.7|identity-announced", "announced properties hold \"Identity\" -> the configured value (insert sites on path=%d)" % len(ins), b.loc(ev.bb))
                    rep.check(st == 1, "R01.7", "R01.7|identity-iff-configured", "properties are announced only on paths where the identity option was decided Some (decided: %s)" % st, b.loc(ev.bb))
                elif a[0] in ("call", "pure") and short(a[1]) == "map" and len(a[2]) == 2 and a[2][1][0] == "agg" and a[2][1][1] == "closure":
                    src_ok = any(isinstance(x, tuple) and x and is_identity_option(x) for x in walk_expr(a[2][0]))
                    cb = f.body(a[2][1][2])
                    all_paths = cb is not None
                    if cb is not None:
                        for cp in pathq.paths(f, cb):
                            if cp.end != "return":
                                continue
                            if not any(_identity_insert(e, lambda y: y[0] == "arg" and y[1] >= 2) for e in cp.events):
                                all_paths = False
                    rep.check(all_paths, "R01.7", "R01.7|identity-announced", "option.map(closure): every path of the closure inserts \"Identity\" -> its argument", b.loc(ev.bb))
                    rep.check(src_ok, "R01.7", "R01.7|identity-iff-configured", "option.map(closure) maps the configured identity option itself (Some iff configured)", b.loc(ev.bb))
                else:
                    rep.bad("R01.7", "R01.7|identity-announced", "form of the announced properties not recognised: %s" % show(a)[:100], b.loc(ev.bb))
        rep.floor("R01.7", "READY exchange calls in the handshake driver", n, 1)


def check_decode_keeps_assembly(f, rep):
    """R01.8: "decoding those bytes yields the identical message" needs the frames of a multipart message to survive between
    decode calls: the accumulator discipline of C02 (R02.3) and the no-stall rule (R02.2) are necessary conditions here too."""
    from . import c02
    from ..report import Report
    sub = Report("C01", rep.config)
    for self_ty, dec in trait_impls(f, "asynchronous_codec::Decoder", "decode").items():
        c02.analyse_decoder(f, sub, dec, self_ty)
    for o in sub.obls:
        if o.rule in ("R02.3", "R02.1") or (o.rule == "R02.2" and "|stall|" in o.key):
            (rep.ok if o.ok else rep.bad)("R01.8", o.key.replace(o.rule, "R01.8", 1), o.what, o.loc, o.detail)


def run(ctx, f, rep):
    check_decode_keeps_assembly(f, rep)
    check_encoder(f, rep)
    check_command_writer(f, rep)
    check_greeting(f, rep)
    check_decoder(f, rep)
    check_ready(f, rep)
