"""C10 - round-robin senders (structural clauses).

For GenericSocketBackend::send_round_robin (PUSH, DEALER) and REQ's own loop, decides on every path:
(R10.1) the connection written to is the peer-table entry looked up with the identity popped from the rotation;
(R10.2) the write is SinkExt::send (feed + flush, awaited to completion), not a best-effort try_send/feed;
(R10.3) per loop iteration one pop; the popped id is pushed back exactly once on a path that wrote successfully,
never on the skip path (id no longer in the table) and never re-inserted on the error path, where the peer is
forgotten instead (no compensating pop that could remove another peer); (R10.4) when the rotation is empty the
function returns ReturnToSender carrying the caller's message, having written and mutated nothing;
(R10.5) every peer_connected pushes the new identity exactly once on registering paths; (R10.6) PUSH/DEALER
send pass Message::Message(caller's message) to send_round_robin and propagate its error.
Does NOT decide rotation as an observed history (argued: FIFO + R10.3 + R10.5) nor partial writes."""
from ..sym import show, walk_expr
from ..common import short, trait_impls, coroutine_of, is_some_payload_of
from .. import pathq
from . import fq
from .c07 import socket_coroutine, wire_writes, msg_mutations, is_param_msg

EXPLANATION = __doc__
NOT_DECIDED = "strict rotation as an observed history (argued from FIFO + R10.3 + R10.5); behaviour under partial writes inside the sink"
ASSUMPTIONS = ["crossbeam SegQueue is FIFO", "futures SinkExt::send = feed then flush; completes only when flushed"]
RULES = {
    "R10.1": "written entry = lookup(popped id)",
    "R10.2": "write is SinkExt::send awaited to completion",
    "R10.3": "push back once on success; none on skip; on error the peer is forgotten, no compensating pop",
    "R10.4": "empty rotation: ReturnToSender(original message), no write, no mutation",
    "R10.5": "peer_connected pushes the new id exactly once on registering paths",
    "R10.6": "PUSH/DEALER send delegate with Message::Message(message) and propagate the error",
    "R10.F": "foundation clauses re-evaluated as necessary conditions: " + ", ".join(['identity']),
}


def seg(ev, what):
    return ev.kind == "call" and ev.extra != "inlined" and short(ev.name) == what and "SegQueue" in ev.name


def analyse_sender(f, rep, co, label, push_before_write_ok=False, param_pred=None, split_halves=False):
    nw = nempty = nskip = nok = nerr = 0
    for p in pathq.paths(f, co, max_visits=2, inline_async=True):
        pops = [(i, ev) for i, ev in enumerate(p.events) if seg(ev, "pop")]
        pushes = [(i, ev) for i, ev in enumerate(p.events) if seg(ev, "push")]
        ww = wire_writes(p)
        # ---- R10.1 / R10.2 per write
        for i, ev in ww:
            nw += 1
            looked = pathq.mentions_call(ev.args[0], lambda x: short(x[1]) == "get_async" and not x[1].endswith("}"))
            last_pop = [pe for pi, pe in pops if pi < i]
            # the lookup key IS the id popped last (not something else chosen with its help)
            same = looked is not None and last_pop and len(looked[2]) > 1 and is_some_payload_of(looked[2][1], last_pop[-1].result)
            rep.check(bool(same), "R10.1", "R10.1|%s|write-to-popped-peer" % label, "%s writes to the entry looked up with the id popped from the rotation" % label, co.loc(ev.bb))
            rep.check(short(ev.name) == "send" and "SinkExt" in ev.name, "R10.2", "R10.2|%s|send-and-flush" % label,
                      "%s writes with SinkExt::send (feed+flush awaited), found %s" % (label, ev.name), co.loc(ev.bb))
        if p.end != "return":
            continue
        rk = pathq.ret_kind(p)
        # ---- R10.4 empty rotation
        last_pop_none = pops and any(e[0] == "discr" and e[1] == pops[-1][1].result and c == ("eq", 0) for (e, c, _, _) in p.conds)
        if last_pop_none:
            nempty += 1
            muts = msg_mutations(p, lambda e: True)
            carries = p.ret is not None and "ReturnToSender" in show(p.ret) and (param_pred(p.ret) if param_pred else True)
            # writes of *earlier* iterations are impossible: a write ends the function
            rep.check(rk == "Err" and carries and not ww and not muts, "R10.4", "R10.4|%s|empty-rotation" % label,
                      "%s with no peer in rotation: ReturnToSender with the caller's message (%s), no write (%d), no mutation (%s)" % (label, carries, len(ww), [short(m.name) for _, m in muts]), co.loc())
            continue
        if not ww:
            continue
        # the write's outcome
        wi, wev = ww[-1]
        this_pop = [pe for pi, pe in pops if pi < wi][-1] if [1 for pi, pe in pops if pi < wi] else None
        pushed_this = [(pi, pe) for pi, pe in pushes if this_pop is not None and is_some_payload_of(pe.args[1], this_pop.result)]
        later_pops = [pe for pi, pe in pops if pi > wi]
        forgets = [ev for i, ev in enumerate(p.events) if i > wi and ev.kind == "call" and short(ev.name) in ("peer_disconnected", "remove_entry", "remove_sync", "remove_async", "remove")
                   and ("scc" in ev.name or "peer_disconnected" in ev.name or "OccupiedEntry" in ev.name)]
        if rk == "Ok":
            nok += 1
            rep.check(len(pushed_this) == 1 and len(pushes) == len(pushed_this) + (len([1 for pi, pe in pushes if (pi, pe) not in pushed_this])) and
                      len([1 for pi, pe in pushes if (pi, pe) not in pushed_this]) == 0,
                      "R10.3", "R10.3|%s|push-back-once" % label, "%s: after a successful write the served peer re-enters the rotation exactly once (pushes of it: %d, other pushes: %d)" % (
                          label, len(pushed_this), len(pushes) - len(pushed_this)), co.loc())
            # the push may come before the write (REQ does that, it keeps the peer in rotation if the send future is dropped)
            # but never before the table lookup found the peer: a vanished id must leave the rotation
            lookups = [i for i, ev in pathq.calls(p, "get_async") if this_pop is not None and any(y == this_pop.result for y in walk_expr(ev.args[1]))]
            rep.check(bool(lookups) and all(pi > lookups[-1] for pi, pe in pushed_this), "R10.3", "R10.3|%s|push-after-lookup" % label,
                      "%s re-queues the peer only after the peer table lookup for it" % label, co.loc())
        elif rk == "Err":
            nerr += 1
            ok_push = len(pushed_this) <= 1
            # "forgotten" = everything held for that connection: where the read half lives in a separate receive queue (the generic
            # backend), removing the table entry alone keeps the transport open - peer_disconnected (which releases both: C16 R16.1 /
            # R16.4), or the table removal together with QueueInner::remove, is required
            if split_halves:
                both = any("peer_disconnected" in e.name for e in forgets) or (
                    bool(forgets) and any(ev.kind == "call" and short(ev.name) == "remove" and fq.inner_name(f) in ev.name for ev in p.events[wi:]))
                rep.check(both, "R10.3", "R10.3|%s|write-error-releases-both-halves" % label,
                          "%s: after a failed write the peer's table entry AND its queued read half are released (%s)" % (label, [short(e.name) for e in forgets]), co.loc())
            rep.check(ok_push and not later_pops and bool(forgets), "R10.3", "R10.3|%s|write-error" % label,
                      "%s: after a failed write the peer is forgotten (%s) and the rotation is not touched again (pushes of it: %d, compensating pops: %d)" % (
                          label, [short(e.name) for e in forgets], len(pushed_this), len(later_pops)), co.loc())
    # skip path: a popped id whose lookup missed is not pushed back
    for p in pathq.paths(f, co, max_visits=2):
        pops = [(i, ev) for i, ev in enumerate(p.events) if seg(ev, "pop")]
        pushes = [(i, ev) for i, ev in enumerate(p.events) if seg(ev, "push")]
        for n, (pi, pe) in enumerate(pops):
            nxt = pops[n + 1][0] if n + 1 < len(pops) else None
            if nxt is None:
                continue
            # an iteration that ended without a write and went on to pop again = skip
            seg_writes = [1 for i, ev in wire_writes(p) if pi < i < nxt]
            if seg_writes:
                continue
            nskip += 1
            seg_push = [1 for qi, qe in pushes if pi < qi < nxt and any(y == pe.result for y in walk_expr(qe.args[1]))]
            rep.check(not seg_push, "R10.3", "R10.3|%s|skip-not-requeued" % label,
                      "%s: an id that is no longer in the peer table is dropped from the rotation, not pushed back (pushes: %d)" % (label, len(seg_push)), co.loc(pe.bb))
    rep.floor("R10.1", "%s: wire writes" % label, nw, 1)
    rep.floor("R10.4", "%s: empty-rotation exits" % label, nempty, 1)
    rep.floor("R10.3", "%s: skip iterations" % label, nskip, 1)
    rep.floor("R10.3", "%s: success exits" % label, nok, 1)
    rep.floor("R10.3", "%s: write-error exits" % label, nerr, 1)


DEPENDS = ['identity']     # foundation groups re-evaluated as necessary conditions (rules/found.py)


def run(ctx, f, rep):
    from . import found
    found.import_groups(ctx, f, rep, 'C10', DEPENDS)
    # the shared round-robin sender, by role: an async fn that is not a trait method and takes ids off the SegQueue rotation
    def scope_calls(b, name):
        return any(fn and fn["name"] == name and "SegQueue" in fn["path"] for k in pathq.scope(f, b) for bb, t, fn in k.calls())
    rr = [b for b in f.bodies if b.j.get("coroutine_kind") and not (f.body(b.j.get("parent")) is not None and f.body(b.j.get("parent")).j.get("impl_trait"))
          and "::test" not in b.path and scope_calls(b, "pop")]
    rep.floor("R10.1", "shared round-robin sender (async fn popping the SegQueue rotation)", len(rr), 1)
    # the sender's own name (it is found by what it does, not by what it is called)
    rr_names = {(f.body(co.j.get("parent")).j.get("name") if f.body(co.j.get("parent")) is not None else None) or co.path.split("::")[-2] for co in rr}
    for co in rr:
        # does the backend this sender belongs to keep the read halves in a separate receive queue?
        owner = f.body(co.j.get("parent")) if co.j.get("parent") else None
        split = False
        if owner is not None:
            self_ty = (owner.j.get("impl_self") or owner.path.rsplit("::", 1)[0]).split("::")[-1]
            split = any(p_.split("::")[-1] == self_ty and any(fq.inner_name(f) in x["ty"] for x in a["variants"][0]["fields"]) for p_, a in f.adts.items() if a["kind"] == "Struct")
        analyse_sender(f, rep, co, "send_round_robin", split_halves=split,
                       param_pred=lambda e: any(isinstance(x, tuple) and x and x[0] == "field" and x[1] == ("arg", 1) for x in walk_expr(e)))
    co = socket_coroutine(f, "SocketSend", "send", "ReqSocket")
    if co is None:
        rep.bad("R10.1", "R10.1|REQ|anchor", "ReqSocket::send not found (anchor-missing)")
    else:
        analyse_sender(f, rep, co, "REQ send", push_before_write_ok=True, param_pred=is_param_msg)
    # R10.5
    impls = trait_impls(f, "MultiPeerBackend", "peer_connected")
    with_rr = 0
    for ty, outer in sorted(impls.items()):
        co = coroutine_of(f, outer)
        if co is None:
            continue
        has_rr = scope_calls(co, "push")
        if not has_rr:
            continue
        with_rr += 1
        for p in pathq.paths(f, co):
            if p.end != "return":
                continue
            tab = [e for i, e in pathq.calls(p, "upsert_async", "upsert_sync", "insert_async", "insert_sync") if "scc::" in e.name]
            pushes = [e for e in p.events if seg(e, "push")]
            if tab:
                rep.check(len(pushes) == 1, "R10.5", "R10.5|%s|joins-rotation-once" % ty, "%s: a registered peer enters the rotation exactly once (pushes=%d)" % (ty, len(pushes)), co.loc())
            else:
                rep.check(len(pushes) == 0, "R10.5", "R10.5|%s|unregistered-not-queued" % ty, "%s: a peer that was not registered is not put into the rotation" % ty, co.loc())
    rep.floor("R10.5", "backends with a rotation", with_rr, 3)
    # R10.6
    for suffix in ("PushSocket", "DealerSocket"):
        co = socket_coroutine(f, "SocketSend", "send", suffix)
        if co is None:
            rep.bad("R10.6", "R10.6|%s|anchor" % suffix, "%s::send not found (anchor-missing)" % suffix)
            continue
        n = 0
        for p in pathq.paths(f, co):
            for i, ev in pathq.calls(p, *sorted(rr_names)):
                n += 1
                item = ev.args[1]
                rep.check(item[0] == "agg" and item[3] == "Message" and is_param_msg(item) and not msg_mutations(p, is_param_msg, upto=i), "R10.6",
                          "R10.6|%s|delegates" % suffix, "%s::send passes Message::Message(caller's message) unmodified to the round-robin sender" % suffix, co.loc(ev.bb))
            if p.end == "return" and pathq.ret_kind(p) == "Ok":
                okd = pathq.ok_decided(p, lambda x: any(pathq.is_poll_of(x, nm) for nm in rr_names))
                rep.check(okd, "R10.6", "R10.6|%s|propagates" % suffix, "%s::send reports success only when the round-robin sender did" % suffix, co.loc())
        rep.floor("R10.6", "%s: calls to send_round_robin" % suffix, n, 1)
