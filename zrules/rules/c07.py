"""C07 - REQ/REP envelopes added, preserved, stripped exactly (structural clauses).

Decides on every path: (R07.1) REQ send puts the parameter message on the wire after exactly one push_front of an
empty frame and no other mutation, and hands the message back *unmodified* on every refusing exit; (R07.2) REQ
recv returns Ok only after len >= 2, exactly one pop_front and an emptiness test of the popped frame that
was true; (R07.3) REP recv splits at (index of the first empty frame)+1 found by an unfiltered enumerate over all
frames (default 1 when none), requires split index < frame count (no zero-frame message), stores the kept part
as envelope and returns the split-off part; error exits leave envelope/requester untouched; (R07.4) REP send
prepends the stored envelope (taken from the socket) onto the reply exactly once before the write;
(R07.5) ZmqMessage::prepend keeps frame order (reverse iteration + push_front), split_off delegates to
VecDeque::split_off. Does NOT decide payload byte equality end to end."""
from ..sym import show, walk_expr
from ..common import is_field, short, trait_impls, coroutine_of, strip_casts, emptiness, is_empty_bytes, store_hits, names_type
from .. import pathq
from ..oblig import implied_ge

EXPLANATION = __doc__
WITNESS = ['C07']
NOT_DECIDED = "payload byte equality end to end; envelopes through multi-hop chains (follows from C09/C15 + these)"
ASSUMPTIONS = ["VecDeque::push_front/pop_front/split_off semantics", "SinkExt::send writes the item it is given"]
RULES = {
    "R07.1": "REQ send: one empty delimiter pushed, message otherwise untouched; refused sends return the message unmodified",
    "R07.2": "REQ recv: len>=2, one pop_front, popped frame empty",
    "R07.3": "REP recv: split at first-empty+1 over all frames; index < len; envelope stored, body returned; Err exits effect-free",
    "R07.4": "REP send: message.prepend(taken envelope) once, before the write",
    "R07.5": "ZmqMessage::prepend order-preserving; split_off = VecDeque::split_off",
    "R07.F": "foundation clauses re-evaluated as necessary conditions: " + ", ".join(['decoder', 'identity', 'wakeup']),
}

MUTATORS = {"push_front", "push_back", "pop_front", "pop_back", "prepend", "split_off", "clear", "truncate", "insert", "remove", "append", "extend"}


def socket_coroutine(f, trait, method, ty_suffix):
    for ty, outer in trait_impls(f, trait, method).items():
        if names_type(ty, ty_suffix):         # by the socket type's public name, whatever module it lives in
            return coroutine_of(f, outer)
    return None


def is_param_msg(e):
    """expression derives from the coroutine's captured `message: ZmqMessage` parameter"""
    return any(isinstance(x, tuple) and x and x[0] == "field" and x[1] == ("arg", 1) and "ZmqMessage" in str(x[3]) for x in walk_expr(e))


def msg_mutations(p, pred, upto=None):
    out = []
    evs = p.events if upto is None else p.events[:upto]
    for i, ev in enumerate(evs):
        if ev.kind == "call" and short(ev.name) in MUTATORS and "ZmqMessage" in ev.name and ev.args and pred(ev.args[0]):
            out.append((i, ev))
    return out


def wire_writes(p):
    return [(i, ev) for i, ev in pathq.calls(p, "send", "feed", "start_send", "try_send", "send_all") if "Sink" in ev.name or "TrySend" in ev.name]


def implied_lt(conds, a, b):
    """decisions imply a < b"""
    a, b = strip_casts(a), strip_casts(b)
    for (e, c, _, _) in conds:
        t = pathq.truth(c)
        if t is None or e[0] != "binop":
            continue
        x, y, op = strip_casts(e[2]), strip_casts(e[3]), e[1]
        if (x, y) == (a, b):
            if (op == "Lt" and t) or (op == "Ge" and not t):
                return True
        if (x, y) == (b, a):
            if (op == "Gt" and t) or (op == "Le" and not t):
                return True
    return False


def check_req_send(f, rep):
    co = socket_coroutine(f, "SocketSend", "send", "ReqSocket")
    if co is None:
        rep.bad("R07.1", "R07.1|anchor", "ReqSocket::send not found (anchor-missing)")
        return
    nw = 0
    nr = 0
    for p in pathq.paths(f, co, inline_async=True):
        ww = wire_writes(p)
        for i, ev in ww:
            nw += 1
            item = ev.args[1]
            ok_item = item[0] == "agg" and item[3] == "Message" and is_param_msg(item)
            muts = msg_mutations(p, is_param_msg, upto=i)
            pushes = [m for _, m in muts if short(m.name) == "push_front"]
            others = [short(m.name) for _, m in muts if short(m.name) != "push_front"]
            empty = len(pushes) == 1 and is_empty_bytes(pushes[0].args[1])
            rep.check(ok_item and len(pushes) == 1 and empty and not others, "R07.1", "R07.1|delimiter-once",
                      "REQ writes the caller's message after exactly one push_front(Bytes::new()) and nothing else (pushes=%d empty=%s other=%s)" % (len(pushes), empty, others), co.loc(ev.bb))
        if p.end == "return" and pathq.ret_kind(p) == "Err" and not ww and p.ret is not None and "ReturnToSender" in show(p.ret):
            nr += 1
            muts = msg_mutations(p, is_param_msg)
            rep.check(not muts, "R07.1", "R07.1|refusal-returns-message-intact",
                      "a refused send hands the message back unmodified (mutations before the refusal: %s)" % [short(m.name) for _, m in muts], co.loc())
    rep.floor("R07.1", "wire writes on REQ send paths", nw, 1)
    rep.floor("R07.1", "refusing exits of REQ send", nr, 2)


def check_req_recv(f, rep):
    co = socket_coroutine(f, "SocketRecv", "recv", "ReqSocket")
    if co is None:
        rep.bad("R07.2", "R07.2|anchor", "ReqSocket::recv not found (anchor-missing)")
        return
    n = 0
    for p in pathq.paths(f, co, inline_async=True):
        if p.end != "return" or pathq.ret_kind(p) != "Ok":
            continue
        n += 1
        pops = [ev for i, ev in pathq.calls(p, "pop_front") if "ZmqMessage" in ev.name]
        other = [short(ev.name) for i, ev in pathq.calls(p) if short(ev.name) in MUTATORS and "ZmqMessage" in ev.name and short(ev.name) != "pop_front"]
        len_ok = False
        for (e, c, _, _) in p.conds:
            t = pathq.truth(c)
            if e[0] == "binop" and e[3] == ("int", 2) and e[2][0] in ("pure", "call") and short(e[2][1]) == "len":
                len_ok = (e[1] == "Lt" and t is False) or (e[1] == "Ge" and t is True)
            if e[0] == "binop" and e[3] == ("int", 1) and e[2][0] in ("pure", "call") and short(e[2][1]) == "len":
                len_ok = len_ok or (e[1] == "Gt" and t is True) or (e[1] == "Le" and t is False)
        empt = False
        for (e, c, _, _) in p.conds:
            em = emptiness(e, c)
            if em is not None and pops and any(x == pops[0].result for x in walk_expr(em[0])):
                empt = em[1] is True
        rep.check(len(pops) == 1 and not other and len_ok and empt, "R07.2", "R07.2|strip-delimiter",
                  "REQ recv returns Ok only after len>=2 (%s), exactly one pop_front (%d), popped frame tested empty (%s), no other mutation (%s)" % (len_ok, len(pops), empt, other), co.loc())
    rep.floor("R07.2", "Ok exits of REQ recv", n, 1)


def rep_fields(f):
    """(envelope field, requester field) of the REP socket, by type"""
    from ..common import fields_by_type
    env = fields_by_type(f, "rep::RepSocket", lambda ty: ty.startswith("std::option::Option<") and "ZmqMessage" in ty or ty.startswith("std::option::Option<") and "Envelope" in ty)
    # a private newtype around the message also counts: Option<T> where T is a local struct holding a ZmqMessage
    if not env:
        for p_, a in f.adts.items():
            if a["kind"] == "Struct" and any("ZmqMessage" in x["ty"] for x in a["variants"][0]["fields"]):
                nm = p_.split("::")[-1]
                env = fields_by_type(f, "rep::RepSocket", lambda ty, nm=nm: ty.startswith("std::option::Option<") and ty.rstrip(">").endswith(nm))
                if env:
                    break
    req = fields_by_type(f, "rep::RepSocket", lambda ty: ty.startswith("std::option::Option<") and "PeerIdentity" in ty)
    if not req:
        # the marker may sit in a private newtype (`CurrentPeer(Option<PeerIdentity>)`): then it is `field.0`
        from .c08 import marker_field
        m = marker_field(f, "RepSocket")
        req = [m] if m else []
    return (env[0] if env else None), (req[0] if req else None)


def first_empty_position(f, x):
    """x is `frames.iter().position(|fr| fr.is_empty())`: plain iter() of a message (no adaptor), predicate = emptiness of the item"""
    while isinstance(x, tuple) and x and x[0] == "ref":
        x = x[1]
    if not (isinstance(x, tuple) and x and x[0] in ("call", "pure") and short(x[1]) == "position" and len(x[2]) == 2):
        return False
    it = x[2][0]
    while isinstance(it, tuple) and it and it[0] == "ref":
        it = it[1]
    if not (it[0] in ("call", "pure") and short(it[1]) == "iter" and ("ZmqMessage" in it[1] or "VecDeque" in it[1])):
        return False
    clo = x[2][1]
    if not (clo[0] == "agg" and clo[1] == "closure"):
        return False
    cb = f.body(clo[2])
    if cb is None:
        return False
    n = 0
    for cp in pathq.paths(f, cb):
        if cp.end != "return":
            continue
        n += 1
        r = cp.ret
        if not (r[0] in ("call", "pure") and short(r[1]) == "is_empty" and any(y == ("arg", 2) for y in walk_expr(r))):
            return False
    return n > 0


def check_rep_recv(f, rep):
    ENV, REQ = rep_fields(f)
    rep.check(ENV is not None and REQ is not None, "R07.3", "R07.3|state-fields", "REP socket state fields by type: envelope=%s requester=%s" % (ENV, REQ))
    if ENV is None or REQ is None:
        return
    co = socket_coroutine(f, "SocketRecv", "recv", "RepSocket")
    if co is None:
        rep.bad("R07.3", "R07.3|anchor", "RepSocket::recv not found (anchor-missing)")
        return
    n_ok = 0
    forms = set()
    for p in pathq.paths(f, co, max_visits=3):
        if p.end != "return":
            continue
        rk = pathq.ret_kind(p)
        stores = [ev for ev in p.events if (store_hits(ev, ENV) or store_hits(ev, REQ))]
        if rk == "Err":
            rep.check(not stores, "R07.3", "R07.3|err-exit-effect-free",
                      "an error exit of REP recv leaves the stored envelope and requester untouched (stores: %s)" % [s.place for s in stores], co.loc())
            continue
        if rk != "Ok":
            continue
        n_ok += 1
        r = p.ret[4][0]
        is_split = r[0] in ("call", "pure") and short(r[1]) == "split_off"
        rep.check(is_split, "R07.3", "R07.3|returns-split-off", "REP recv returns the part split off after the delimiter: %s" % show(r)[:60], co.loc())
        if not is_split:
            continue
        at = strip_casts(r[2][1])
        msg = r[2][0]
        # the scan: Enumerate::next() items
        scans = [ev for i, ev in pathq.calls(p, "next") if "Enumerate" in ev.name]
        chain_ok = True
        for ev in scans:
            recv = ev.args[0]
            names = [short(x[1]) for x in walk_expr(recv) if isinstance(x, tuple) and x and x[0] in ("call", "pure")]
            extra = [nm for nm in names if nm in ("skip", "rev", "filter", "step_by", "take", "skip_while", "take_while", "chain", "zip", "peekable")]
            if extra or "enumerate" not in names or "iter" not in names:
                chain_ok = False
        if scans:
            rep.check(chain_ok, "R07.3", "R07.3|scan-all-frames", "the delimiter scan enumerates all frames from index 0 (iterator chain is iter().enumerate() only)", co.loc(scans[0].bb))
        # the other scan form: frames.iter().position(|fr| fr.is_empty())
        pos_some = [c for (e, c, _, _) in p.conds if e[0] == "discr" and first_empty_position(f, e[1]) and c in (("eq", 1), ("notin", (0,)))]
        pos_seen = [c for (e, c, _, _) in p.conds if e[0] == "discr" and first_empty_position(f, e[1])]
        if at == ("int", 1):
            # default: no empty frame was found on this path
            found = [1 for (e, c, _, _) in p.conds if emptiness(e, c) is not None and emptiness(e, c)[1] is True and
                     pathq.mentions_call(emptiness(e, c)[0], lambda x: short(x[1]) == "next" and "Enumerate" in x[1]) is not None]
            rep.check(not found and not pos_some, "R07.3", "R07.3|split-default", "split index 1 is used only when no scanned frame was empty", co.loc())
            rep.check(bool(scans) or bool(pos_seen), "R07.3", "R07.3|split-default-after-scan", "split index 1 is used only after the frames were scanned for a delimiter", co.loc())
            forms.add("default")
        elif at[0] == "binop" and at[1] == "Add" and at[3] == ("int", 1) and at[2][0] == "field" and at[2][1][0] == "downcast" and \
                at[2][1][2] == "Some" and first_empty_position(f, at[2][1][1]):
            rep.ok("R07.3", "R07.3|split-at-first-empty", "split index = position(first empty frame) + 1 over all frames", co.loc())
            forms.add("found")
        elif at[0] == "binop" and at[1] == "Add" and at[3] == ("int", 1):
            idx = at[2]
            nx = pathq.mentions_call(idx, lambda x: short(x[1]) == "next" and "Enumerate" in x[1])
            is_idx = nx is not None and idx[0] == "field" and idx[2] in (0, "0")
            # the frame of the same item was empty, earlier items were not
            this_empty = False
            earlier_nonempty = True
            for (e, c, _, _) in p.conds:
                em = emptiness(e, c)
                if em is not None:
                    src = pathq.mentions_call(em[0], lambda x: short(x[1]) == "next" and "Enumerate" in x[1])
                    if src is None:
                        continue
                    if src == nx:
                        this_empty = em[1] is True
                    elif em[1] is True:
                        earlier_nonempty = False
            rep.check(is_idx and this_empty and earlier_nonempty, "R07.3", "R07.3|split-at-first-empty",
                      "split index = (index of the first empty frame) + 1 (index from enumerate: %s, that frame empty: %s, earlier frames non-empty: %s)" % (is_idx, this_empty, earlier_nonempty), co.loc())
            forms.add("found")
        else:
            rep.bad("R07.3", "R07.3|split-index-form", "split index `%s` is neither 1 nor (enumerate index)+1" % show(at)[:60], co.loc())
        # non-empty body: at < len(m)
        L = None
        for (e, c, _, _) in p.conds:
            for side in (2, 3):
                if e[0] == "binop" and e[side][0] in ("pure", "call") and short(e[side][1]) == "len" and "ZmqMessage" in e[side][1] and strip_casts(e[5 - side]) == at:
                    L = e[side]
        nonempty = L is not None and implied_lt(p.conds, at, L)
        if not nonempty:
            # alternative: the returned value itself tested non-empty
            nonempty = any(e[0] in ("pure", "call") and short(e[1]) == "is_empty" and pathq.truth(c) is False and any(x == r for x in walk_expr(e)) for (e, c, _, _) in p.conds)
        rep.check(nonempty, "R07.3", "R07.3|body-non-empty", "REP recv returns Ok only when at least one frame follows the delimiter (split index < frame count)", co.loc())
        # envelope := the kept part, requester := queue key
        env = [s for s in p.events if store_hits(s, ENV)]
        ok_env = len(env) == 1 and env[0].value[0] == "agg" and env[0].value[3] == "Some" and any(isinstance(x, tuple) and x and x[0] == "havoc" for x in walk_expr(env[0].value))
        rep.check(ok_env, "R07.3", "R07.3|envelope-stored", "the frames up to and including the delimiter are stored as the envelope (stores=%d)" % len(env), co.loc())
    rep.floor("R07.3", "Ok exits of REP recv", n_ok, 2)
    rep.floor("R07.3", "split-index forms seen (default, found)", len(forms), 2)


def check_rep_send(f, rep):
    ENV, REQ = rep_fields(f)
    if ENV is None:
        rep.bad("R07.4", "R07.4|state-fields", "REP envelope field not found (anchor-missing)")
        return
    co = socket_coroutine(f, "SocketSend", "send", "RepSocket")
    if co is None:
        rep.bad("R07.4", "R07.4|anchor", "RepSocket::send not found (anchor-missing)")
        return
    n = 0
    for p in pathq.paths(f, co, inline_async=True):
        for i, ev in wire_writes(p):
            n += 1
            item = ev.args[1]
            muts = msg_mutations(p, lambda e: True, upto=i)
            pre = [m for _, m in muts if short(m.name) == "prepend"]
            other = [short(m.name) for _, m in muts if short(m.name) != "prepend"]
            env_some = any(e[0] == "discr" and c == ("eq", 1) and pathq.mentions_call(e[1], lambda x: short(x[1]) == "take") is not None and
                           any(is_field(y, ENV) for y in walk_expr(e[1])) for (e, c, _, _) in p.conds[:ev.ncond])
            if not env_some:
                rep.check(not pre and not other, "R07.4", "R07.4|no-envelope-no-prepend", "without a stored envelope the reply is written as given", co.loc(ev.bb))
                continue
            ok = len(pre) == 1 and not other and is_param_msg(pre[0].args[0]) and \
                pathq.mentions_call(pre[0].args[1], lambda x: short(x[1]) == "take") is not None and \
                any(is_field(y, ENV) for y in walk_expr(pre[0].args[1])) and \
                item[0] == "agg" and item[3] == "Message" and is_param_msg(item)
            rep.check(ok, "R07.4", "R07.4|prepend-envelope-once",
                      "REP prepends the taken envelope onto the reply exactly once and writes the reply (prepends=%d, receiver is reply=%s, other mutations=%s)" % (
                          len(pre), bool(pre) and is_param_msg(pre[0].args[0]), other), co.loc(ev.bb))
    rep.floor("R07.4", "wire writes on REP send paths", n, 1)


def check_message_ops(f, rep):
    pre = [b for b in f.bodies if b.path.endswith("message::ZmqMessage::prepend")]
    so = [b for b in f.bodies if b.path.endswith("message::ZmqMessage::split_off")]
    rep.floor("R07.5", "ZmqMessage::prepend", len(pre), 1)
    rep.floor("R07.5", "ZmqMessage::split_off", len(so), 1)
    for b in pre:
        seen = 0
        for p in pathq.paths(f, b):
            for i, ev in pathq.calls(p, "push_front", "push_back"):
                seen += 1
                src = ev.args[1]
                names = [short(x[1]) for x in walk_expr(src) if isinstance(x, tuple) and x and x[0] in ("call", "pure")]
                recv = ev.args[0]
                while recv[0] in ("ref", "field", "deref"):
                    recv = recv[1]
                adaptors = [nm for nm in names if nm in ("skip", "filter", "step_by", "take", "skip_while", "take_while", "chain", "zip", "peekable", "filter_map", "map")]
                ok = short(ev.name) == "push_front" and "rev" in names and "iter" in names and ("clone" in names or "cloned" in names) and \
                    names.count("rev") == 1 and not adaptors and recv == ("arg", 1) and any(x == ("arg", 2) for x in walk_expr(src))
                alt = short(ev.name) == "push_back"
                rep.check(ok and not alt, "R07.5", "R07.5|prepend-order",
                          "prepend pushes clones of the other message's frames to the front in reverse order (keeps their order): %s via %s" % (short(ev.name), [n for n in names if n in ("rev", "iter", "clone")]), b.loc(ev.bb))
        rep.floor("R07.5", "push sites in prepend", seen, 1)
    for b in so:
        for p in pathq.paths(f, b):
            if p.end != "return":
                continue
            r = p.ret
            inner = r[4][0] if r[0] == "agg" and r[4] else None
            ok = inner is not None and inner[0] in ("call", "pure") and short(inner[1]) == "split_off" and "VecDeque" in inner[1] and inner[2][1] == ("arg", 2)
            rep.check(ok, "R07.5", "R07.5|split_off-delegates", "ZmqMessage::split_off(at) = VecDeque::split_off(frames, at): %s" % show(r)[:80], b.loc())


DEPENDS = ['decoder', 'identity', 'wakeup']     # foundation groups re-evaluated as necessary conditions (rules/found.py)


def run(ctx, f, rep):
    from . import found
    found.import_groups(ctx, f, rep, 'C07', DEPENDS)
    check_req_send(f, rep)
    check_req_recv(f, rep)
    check_rep_recv(f, rep)
    check_rep_send(f, rep)
    check_message_ops(f, rep)
