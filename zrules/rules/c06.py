"""C06 - no lost wake-up, rotation mechanism (structural clauses).

Decides on every path of the three functions that touch the receiver's waker slot: (R06.1) poll_next returns
Pending only after it stored Some(cx.waker().clone()) unconditionally and *then* found the ready heap empty, both
inside one lock region that started at the last lock acquisition on the path; (R06.2) every other function that
pushes onto the ready heap (QueueInner::insert, the per-stream waker's wake_by_ref) pushes on every path (no
early exit that drops a wake), inspects the waker slot afterwards and wakes it when it is Some, under the lock
(insert is only reachable through a guard); (R06.3) a re-queued or inserted peer gets a fresh ticket from the
atomic counter, and the heap order is the reversed ticket order (min-ticket first), PartialOrd delegating to Ord;
(R06.4) one poll_next call polls inner streams a bounded number of times (counter on the Pending arm; exit wakes the caller's
own waker and returns Pending); (R06.5) integrity of the shared state over the whole crate (who-may-call): ready events leave
the heap only by pop (served) or clear (with the stream table, at shutdown) - never retain/drain/... which would drop a
wake-up some peer is owed - and the ticket counter is only read and advanced by a positive constant (never stored/reset).
Does NOT decide the numeric starvation bound nor that the runtime delivers the wake."""
from ..sym import show, walk_expr
from ..common import short, trait_impls
from .. import pathq
from . import fq

EXPLANATION = __doc__
NOT_DECIDED = "the numeric bound on other-peer deliveries (argued from R06.3: a served peer re-enters behind all queued tickets); wake delivery by the runtime"
ASSUMPTIONS = ["parking_lot::Mutex gives mutual exclusion; BinaryHeap is a max-heap on Ord; AtomicUsize::fetch_add returns distinct increasing values",
               "futures::task::waker_ref / ArcWake call wake_by_ref of the StreamWaker when the inner stream's waker fires"]
RULES = {
    "R06.1": "Pending only after (store waker; pop -> None) in one lock region after the last lock()",
    "R06.2": "push-then-wake under the lock on every path of insert / wake_by_ref; insert only called through a guard",
    "R06.3": "fresh ticket (fetch_add) on every heap push of a delivered/inserted peer; Ord::cmp reversed on tickets; PartialOrd = Some(cmp)",
    "R06.4": "bounded number of inner polls per poll_next call: counter on the Pending arm, exit = wake own waker + Pending",
    "R06.5": "queue state integrity: ready events leave the heap only by pop (served) or clear (shutdown); the ticket counter only ever advances",
}


def is_pending(p):
    r = p.ret
    return r is not None and r[0] == "agg" and r[3] == "Pending"


def moved_into_mutex(f, b, l, depth):
    """local `l` of body `b` is moved into Mutex::new(..) - there, or by a crate-private constructor helper it is handed to whole
    (a `SharedState::new(state)` wrapper that does nothing else with it)"""
    for bb2, t, fn in b.calls():
        if not fn:
            continue
        for i, a in enumerate(t["args"]):
            if a.get("k") == "move" and a["place"]["l"] == l and not a["place"]["p"]:
                if fn["name"] == "new" and "Mutex" in fn["path"]:
                    return True
                r = fn.get("resolved") or {}
                cb = f.body(r.get("path") if r.get("kind") == "item" else fn["path"]) if fn.get("local") and not fn.get("trait") else None
                sig = f.fns.get(cb.path) if cb is not None else None
                if cb is not None and depth < 2 and sig is not None and not sig.get("vis", "").startswith("Public") and \
                        not cb.j.get("coroutine_kind") and moved_into_mutex(f, cb, i + 1, depth + 1):
                    return True
    # a plain move into another local first (`let state = inner;`)
    for blk in b.blocks:
        for st in blk["stmts"]:
            if st["k"] == "assign" and not st["place"]["p"] and st["rv"]["k"] == "use" and st["rv"]["op"].get("k") == "move" and \
                    st["rv"]["op"]["place"]["l"] == l and not st["rv"]["op"]["place"]["p"] and st["place"]["l"] != l and depth < 4:
                if moved_into_mutex(f, b, st["place"]["l"], depth + 1):
                    return True
    return False


def run(ctx, f, rep):
    ipath, iadt, names = fq.inner_adt(f)
    if not ipath:
        rep.bad("R06.1", "R06.1|inner-anchor", "the fair queue's locked state struct (BinaryHeap + HashMap + Option<Waker>) was not found (anchor-missing)")
        return
    rep.ok("R06.1", "R06.1|inner-anchor", "queue state struct %s: %s" % (ipath, names))
    polls = fq.poll_next_body(f, ipath)
    rep.floor("R06.1", "Stream::poll_next of the fair queue", len(polls), 1)
    for b in polls:
        rep.check(not b.j.get("coroutine_kind") and not b.yields(), "R06.1", "R06.1|plain-fn", "poll_next is a plain function (no suspension point inside)", b.loc())
        ps = pathq.paths(f, b, max_visits=3)
        npend = 0
        yields_seen = []
        for p in ps:
            if p.end != "return" or not is_pending(p):
                continue
            npend += 1
            reg = fq.lock_regions(p)
            locks = [i for i, ev in enumerate(p.events) if ev.kind == "call" and short(ev.name) == "lock"]
            last_lock = locks[-1] if locks else None
            # publishing the receiver's waker: a store to the slot, or `Waker::clone_from(slot's waker, cx.waker())` updating the
            # stored one in place (the form clippy's assigning_clones asks for)
            def updates_in_place(ev):
                return ev.kind == "call" and ev.extra != "inlined" and short(ev.name) == "clone_from" and "Waker" in ev.name and len(ev.args or ()) == 2 and \
                    fq.mentions_field(ev.args[0], names["waker"])
            stores = [i for i, ev in enumerate(p.events) if fq.is_store_to(ev, names["waker"]) or updates_in_place(ev)]
            pops = [i for i, ev in enumerate(p.events) if fq.heap_call(ev, names, "pop")]
            ok = False
            why = "no waker store / heap pop after the last lock acquisition"
            if last_lock is not None:
                st = [i for i in stores if i > last_lock]
                pp = [i for i in pops if i > last_lock]
                if st and pp:
                    s_i, p_i = st[-1], pp[-1]
                    ev = p.events[s_i]
                    if updates_in_place(ev):
                        is_some_clone = pathq.mentions_call(ev.args[1], lambda x: short(x[1]) == "waker") is not None
                    else:
                        v = ev.value
                        is_some_clone = v[0] == "agg" and v[3] == "Some" and pathq.mentions_call(v, lambda x: short(x[1]) == "clone") is not None and \
                            pathq.mentions_call(v, lambda x: short(x[1]) == "waker") is not None
                    pop_ev = p.events[p_i]
                    pop_none = any(e[0] == "discr" and e[1] == pop_ev.result and c == ("eq", 0) for (e, c, _, _) in p.conds)
                    same_region = reg.get(s_i) == last_lock and reg.get(p_i) == last_lock
                    ok = is_some_clone and pop_none and s_i < p_i and same_region
                    why = "store Some(cx.waker().clone()): %s; last pop decided None: %s; store before pop: %s; same lock region: %s" % (
                        is_some_clone, pop_none, s_i < p_i, same_region)
                elif pp and not st:
                    why = "heap tested but the receiver's waker is not (re)stored after the last lock acquisition on this path"
            # alternative legitimate Pending: the function wakes its own caller first (it will be polled again at once)
            self_wake = [i for i, ev in enumerate(p.events) if ev.kind == "call" and short(ev.name) in ("wake_by_ref", "wake") and "Waker" in ev.name and ev.args and
                         pathq.mentions_call(ev.args[0], lambda x: short(x[1]) == "waker" and x[2] and x[2][0] == ("arg", 2)) is not None]
            if not ok and self_wake and stores:
                ok = True
                why = "Pending after waking the caller's own waker (yield to the executor, re-polled immediately)"
                yields_seen.append(1)
            rep.check(ok, "R06.1", "R06.1|%s|pending-after-publish-and-empty" % b.path,
                      "Pending is returned only after publishing the waker and then finding the heap empty under one lock (%s)" % why,
                      b.loc(p.blocks[-1][1]), detail="path decisions: %s" % [(show(e)[:50], c) for e, c, _, _ in p.conds][-5:])
        rep.floor("R06.1", "paths of poll_next that return Pending", npend, 1)
        # R06.4: bounded work per call. A stream that wakes its waker while being polled (tokio's cooperative budget) is queued
        # again at once; re-polling it in the same call never lets the executor run. The Pending arm must count and, beyond a
        # bound, wake the caller and return Pending.
        bounded = False
        for p in ps:
            inner = [(i, ev) for i, ev in enumerate(p.events) if ev.kind == "call" and short(ev.name) in fq.INNER_POLL]
            for (i, ev) in inner:
                pend = any(e[0] == "discr" and e[1] == ev.result and c == ("eq", 1) for (e, c, _, _) in p.conds)
                if not pend:
                    continue
                later = p.conds[ev.ncond:]
                def is_count(x):
                    # a per-call counter: folded to a constant >= 1 on an enumerated path, or still symbolic `n + 1`
                    return (x[0] == "int" and x[1] >= 1) or any(isinstance(y, tuple) and y and y[0] == "binop" and y[1] == "Add" and y[3] == ("int", 1) for y in walk_expr(x))
                counted = any(e[0] == "binop" and e[1] in ("Gt", "Ge", "Lt", "Le") and (is_count(e[2]) or is_count(e[3])) for (e, c, _, _) in later)
                if counted:
                    bounded = True
        rep.check(bounded and bool(yields_seen), "R06.4", "R06.4|%s|bounded-polls-per-call" % b.path,
                  "after an inner stream answered Pending the loop is bounded by a counter (%s) and there is an exit that wakes the caller and returns Pending (%s): "
                  "a self-waking stream cannot make one poll_next call spin forever" % (bounded, bool(yields_seen)), b.loc())
        # R06.3: push after a delivery carries a fresh ticket
        fresh = 0
        for p in ps:
            for i, ev in enumerate(p.events):
                if fq.heap_call(ev, names, "push"):
                    evt = ev.args[1]
                    tick = evt[4][0] if evt[0] == "agg" and evt[4] else evt
                    isfresh = tick[0] in ("call", "pure") and short(tick[1]) == "fetch_add" and fq.mentions_field(tick, names.get("counter", "counter"))
                    fresh += 1
                    rep.check(isfresh, "R06.3", "R06.3|%s|requeue-fresh-ticket" % b.path,
                              "a served peer is re-queued with a fresh ticket from the counter (ticket = %s)" % show(tick)[:70], b.loc(ev.bb))
        rep.floor("R06.3", "re-queue pushes in poll_next", fresh, 1)
    # R06.2 other pushers
    # (surface functions: a crate-private helper the path engine looks through is judged in the context of each caller -
    # a `put_back` helper of poll_next runs on the consumer's own task and has nobody to wake)
    pushers = []
    looked_through = pathq.default_inline(f)
    for b in f.bodies:
        if b in polls or b.j.get("coroutine_kind") or b.kind not in ("Fn", "AssocFn"):
            continue
        if "::test" in b.path or "::tests" in b.path:
            continue
        if looked_through({"local": True, "path": b.path, "name": b.j.get("name") or b.path.split("::")[-1], "trait": b.j.get("impl_trait")}):
            continue
        if any(fn and fn["name"] == "push" and "BinaryHeap" in (fn.get("path") or "") + str(fn.get("resolved"))
               for k in pathq.scope(f, b) for bb, t, fn in k.calls()):
            pushers.append(b)
    rep.floor("R06.2", "functions that push onto the ready heap besides poll_next", len(pushers), 2)
    for b in pushers:
        for p in pathq.paths(f, b):
            if p.end != "return":
                continue
            pushes = [i for i, ev in enumerate(p.events) if fq.heap_call(ev, names, "push")]
            rep.check(bool(pushes), "R06.2", "R06.2|%s|push-on-every-path" % b.path,
                      "%s queues the ready event on every path (an early exit would drop a wake-up)" % b.path, b.loc(),
                      detail="path decisions: %s" % [(show(e)[:50], c) for e, c, _, _ in p.conds][-4:])
            if not pushes:
                continue
            pi = pushes[-1]
            # decision on the waker slot after the push
            slot = None
            for (e, c, bb_, _) in p.conds:
                if e[0] == "discr" and (fq.mentions_field(e[1], names["waker"])):
                    slot = c
            wakes = [i for i, ev in enumerate(p.events) if ev.kind == "call" and short(ev.name) in ("wake", "wake_by_ref") and "Waker" in ev.name and i > pi]
            if slot == ("eq", 1):
                rep.check(bool(wakes), "R06.2", "R06.2|%s|wake-when-some" % b.path, "%s wakes the parked receiver after the push when a waker is stored" % b.path, b.loc())
            elif slot is None:
                rep.bad("R06.2", "R06.2|%s|slot-not-inspected" % b.path, "%s pushes a ready event but never looks at the receiver's waker slot" % b.path, b.loc())
            else:
                rep.ok("R06.2", "R06.2|%s|no-waker-stored" % b.path, "%s: nothing to wake when the slot is None" % b.path, b.loc())
            # fresh ticket for inserts
            ev = p.events[pi]
            evt = ev.args[1]
            if evt[0] == "agg":
                tick = evt[4][0]
                rep.check(tick[0] in ("call", "pure") and short(tick[1]) == "fetch_add", "R06.3", "R06.3|%s|fresh-ticket" % b.path,
                          "%s queues a new peer with a fresh ticket (%s)" % (b.path, show(tick)[:50]), b.loc(ev.bb))
            # lock: either the function locks itself before the push, or it takes &mut self and is called through a guard
            locks = [i for i, e2 in enumerate(p.events) if e2.kind == "call" and short(e2.name) == "lock" and i < pi]
            if locks:
                reg = fq.lock_regions(p)
                rep.check(reg.get(pi) is not None and all(reg.get(w) == reg.get(pi) for w in wakes), "R06.2", "R06.2|%s|under-lock" % b.path,
                          "%s pushes and wakes inside one lock region" % b.path, b.loc())
    # `&mut self` methods of the queue state (insert, remove, clear) run under its lock - by the type system, provided the state
    # is only ever built straight into a Mutex and nothing reaches around the lock: then every `&mut QueueInner` is a guard's
    built = 0
    for b in f.bodies:
        if "::test" in b.path:
            continue
        for bb, blk in enumerate(b.blocks):
            for st in blk["stmts"]:
                if st["k"] == "assign" and st["rv"]["k"] == "aggregate" and (st["rv"].get("adt") or "") == ipath:
                    built += 1
                    l = st["place"]["l"] if not st["place"]["p"] else None
                    into_mutex = l is not None and moved_into_mutex(f, b, l, 0)
                    rep.check(into_mutex, "R06.2", "R06.2|state-built-into-mutex|%s" % b.path,
                              "the queue state is built straight into Mutex::new(..) in %s: no unlocked `&mut` to it can exist" % b.path, b.loc(bb))
    rep.floor("R06.2", "construction sites of the queue state", built, 1)
    around = [(b.path, fn["name"]) for b in f.bodies if "::test" not in b.path for bb, t, fn in b.calls()
              if fn and fn["name"] in ("data_ptr", "make_guard_unchecked", "force_unlock", "force_unlock_fair", "get_mut", "into_inner", "raw") and "lock_api::Mutex" in fn["path"]]
    rep.check(not around, "R06.2", "R06.2|no-access-around-the-lock", "nothing reaches around a parking_lot Mutex (data_ptr / force_unlock / get_mut / into_inner): %s" % around)
    # R06.5 integrity of the shared state, over every function of the crate (who-may-call): a ready event is a wake-up some peer
    # is owed - it may leave the heap only by being served (pop) or with the whole queue (clear); tickets order the heap, so
    # the counter may only advance (a reset makes old parked tickets lose to every new one)
    heap_ops = {}
    ctr_ops = {}
    qmod = "::".join(ipath.split("::")[-2:-1]) + "::"        # e.g. "fair_queue::"
    for b in f.bodies:
        if "::test" in b.path:
            continue
        for bb, t, fn in b.calls():
            if not fn or not t["args"]:
                continue
            a0 = t["args"][0]
            e0 = b.expr_of_operand(a0)
            on_heap = "BinaryHeap" in fn["path"] and any(isinstance(x, tuple) and x and x[0] == "field" and x[2] == names["heap"] for x in walk_expr(e0))
            # the ticket counter: every atomic of the queue's own module (the field itself, or a private newtype around it)
            # (the counter field itself wherever it is used, and - when it is wrapped - every atomic inside the wrapper's methods)
            on_ctr = "Atomic" in fn["path"] and (
                any(isinstance(x, tuple) and x and x[0] == "field" and x[2] == names.get("counter") for x in walk_expr(e0)) or
                (names.get("counter_newtype") is not None and names["counter_newtype"] in b.path))
            if on_heap:
                heap_ops.setdefault(fn["name"], []).append((b, bb))
            if on_ctr:
                ctr_ops.setdefault(fn["name"], []).append((b, bb, t))
    for b in f.bodies:
        if "::test" in b.path:
            continue
        for bb, blk in enumerate(b.blocks):
            for st in blk["stmts"]:
                if st["k"] == "assign" and st["place"]["p"] and st["place"]["p"][-1]["k"] == "field" and \
                        st["place"]["p"][-1].get("name") in (names["heap"], names.get("counter")) and ipath.split("::")[-1] in str(st["place"]["p"][-1].get("ty", "")) + str(b.j["locals"][st["place"]["l"]]["ty"]) + b.path:
                    rep.bad("R06.5", "R06.5|%s|field-replaced|%s" % (b.path, st["place"]["p"][-1].get("name")),
                            "%s assigns a new value to the queue's %s: queued wake-ups / issued tickets are discarded" % (b.path, st["place"]["p"][-1].get("name")), b.loc(bb))
    HEAP_OK = {"push", "pop", "peek", "len", "is_empty", "clear", "iter", "new", "capacity", "reserve"}
    bad_heap = {n: v for n, v in heap_ops.items() if n not in HEAP_OK}
    for n, sites in sorted(bad_heap.items()):
        for (b, bb) in sites:
            rep.bad("R06.5", "R06.5|%s|heap-%s" % (b.path, n), "%s removes or rewrites ready events with BinaryHeap::%s: a queued wake-up of some peer is dropped "
                    "(events may leave the heap only by pop or clear)" % (b.path, n), b.loc(bb))
    if not bad_heap:
        rep.ok("R06.5", "R06.5|heap-only-pop-or-clear", "ready events leave the heap only by pop / clear (operations seen: %s)" % sorted(heap_ops))
    rep.floor("R06.5", "operations on the ready heap", sum(len(v) for v in heap_ops.values()), 3)
    clears = [(b, bb) for (b, bb) in heap_ops.get("clear", [])]
    for (b, bb) in clears:
        alone = any(fn2 and fn2["name"] == "clear" and "HashMap" in fn2["path"] for bb2, t2, fn2 in b.calls())
        rep.check(alone, "R06.5", "R06.5|%s|clear-with-streams" % b.path, "the heap is cleared only together with the stream table (whole-queue shutdown) in %s" % b.path, b.loc(bb))
    CTR_OK = {"fetch_add", "load", "new"}
    bad_ctr = {n: v for n, v in ctr_ops.items() if n not in CTR_OK}
    for n, sites in sorted(bad_ctr.items()):
        for (b, bb, t) in sites:
            rep.bad("R06.5", "R06.5|%s|counter-%s" % (b.path, n), "%s changes the ticket counter with %s: tickets of events already parked or queued no longer "
                    "compare correctly with new ones (the counter may only advance)" % (b.path, n), b.loc(bb))
    for (b, bb, t) in ctr_ops.get("fetch_add", []):
        inc = b.expr_of_operand(t["args"][1]) if len(t["args"]) > 1 else None
        rep.check(inc is not None and inc[0] == "int" and inc[1] >= 1, "R06.5", "R06.5|%s|counter-advances" % b.path, "the ticket counter advances by a positive constant (%s)" % (show(inc) if inc else None), b.loc(bb))
    if not bad_ctr:
        rep.ok("R06.5", "R06.5|counter-only-advances", "the ticket counter is only read and advanced (operations seen: %s)" % sorted(ctr_ops))
    rep.floor("R06.5", "fetch_add sites on the ticket counter", len(ctr_ops.get("fetch_add", [])), 1)
    # ordering
    cmps = [b for b in f.bodies if b.j.get("name") == "cmp" and (b.j.get("impl_trait") or "").endswith("cmp::Ord") and "fair_queue" in b.path]
    rep.floor("R06.3", "Ord::cmp of the ready event", len(cmps), 1)
    for b in cmps:
        for p in pathq.paths(f, b):
            if p.end != "return":
                continue
            r = p.ret
            # other.cmp(self), or self.cmp(other).reverse()
            first, second = 2, 1
            if r[0] in ("call", "pure") and short(r[1]) == "reverse" and "Ordering" in r[1] and len(r[2]) == 1:
                r = r[2][0]
                first, second = 1, 2
            ok = r[0] in ("call", "pure") and short(r[1]) == "cmp" and len(r[2]) == 2 and \
                any(x == ("arg", first) for x in walk_expr(r[2][0])) and any(x == ("arg", second) for x in walk_expr(r[2][1])) and \
                not any(x == ("arg", second) for x in walk_expr(r[2][0])) and not any(x == ("arg", first) for x in walk_expr(r[2][1]))
            rep.check(ok, "R06.3", "R06.3|%s|reversed" % b.path, "heap order compares tickets reversed (other.cmp(self)): %s" % show(r)[:80], b.loc())
    pcs = [b for b in f.bodies if b.j.get("name") == "partial_cmp" and "fair_queue" in b.path]
    rep.floor("R06.3", "PartialOrd of the ready event", len(pcs), 1)
    for b in pcs:
        for p in pathq.paths(f, b):
            if p.end != "return":
                continue
            r = p.ret
            inner = r[4][0] if r[0] == "agg" and r[3] == "Some" and r[4] else None
            ok = inner is not None and inner[0] in ("call", "pure") and short(inner[1]) == "cmp" and inner[2] == (("arg", 1), ("arg", 2))
            rep.check(ok, "R06.3", "R06.3|%s|delegates" % b.path, "partial_cmp = Some(self.cmp(other)): %s" % show(r)[:80], b.loc())
