"""Handshake and accept anchors found by signature (shared by C01, C02, C03, C04, C18, C20): none of these crate-private
functions is looked up by its name."""
PROPS_TY = "std::option::Option<std::collections::HashMap<std::string::String, bytes::Bytes"

_memo = {}


def anchors(f):
    """role -> def path:
    ready      async fn taking Option<HashMap<String, Bytes>> (the READY exchange)
    greet      async fn(&mut FramedIo) -> Result<(u8, u8), _> (the greeting exchange; ZmtpVersion = (u8, u8))
    negotiate  fn(Message) -> Result<(u8, u8), _> (version negotiation)
    driver     async fn(FramedIo, Arc<dyn MultiPeerBackend>) (runs both exchanges, then registers)
    accept_tcp / accept_ipc   async fn(.., impl Fn(ZmqResult<(FramedIo, Endpoint)>)) -> Result<(Endpoint, AcceptStopHandle), _>"""
    if id(f) in _memo:
        return _memo[id(f)]
    A = {}
    from . import names
    from ..common import type_holds
    FIO, ASH = names.of(f, "FramedIo"), names.of(f, "AcceptStopHandle")
    for path, s in f.fns.items():
        if "::test" in path:
            continue
        ins, out, asy = s.get("inputs", []), s.get("output", ""), s.get("is_async")
        if asy and any(t.startswith(PROPS_TY) for t in ins):
            A["ready"] = path
        elif asy and len(ins) == 1 and ins[0].startswith("&mut") and ins[0].split("::")[-1] == FIO and "(u8, u8)" in out:
            A["greet"] = path
        elif not asy and "Result<(u8, u8)" in out and any(t.endswith("codec::Message") for t in ins):
            A["negotiate"] = path
        elif asy and any(t.split("::")[-1] == FIO and not t.startswith("&") for t in ins) and any("dyn MultiPeerBackend" in t for t in ins):
            A["driver"] = path
        elif asy and type_holds(f, out, ASH) and not path.startswith("<") and len(ins) >= 2:
            # (only the listeners' start functions hand out a stop handle; the per-connection callback is their last parameter,
            # an `impl Fn(..)` or a named generic)
            if any("Path" in t for t in ins):
                A["accept_ipc"] = path
            elif any(t == "u16" for t in ins):
                A["accept_tcp"] = path
            else:
                A["accept_dispatch"] = path
    _memo[id(f)] = A
    return A


def co(f, role):
    """the coroutine body of the async fn playing `role`"""
    p = anchors(f).get(role)
    if p is None:
        return None
    for b in f.bodies:
        if b.j.get("parent") == p and b.j.get("coroutine_kind"):
            return b
    return None


def is_poll_of_role(f, x, role):
    """x is (the result of) polling / calling the future of the async fn playing `role`"""
    p = anchors(f).get(role)
    return p is not None and isinstance(x, tuple) and x and x[0] in ("call", "pure") and (x[1] == p or x[1].startswith(p + "::{closure"))


def _places(j):
    """every place object in a body's JSON"""
    if isinstance(j, dict):
        if "l" in j and "p" in j and isinstance(j["p"], list):
            yield j
        for v in j.values():
            yield from _places(v)
    elif isinstance(j, list):
        for v in j:
            yield from _places(v)


def accept_callbacks(f):
    """The per-connection callback of bind(): the coroutine bodies that are handed the outcome of accept() - a captured
    `Result<.. FramedIo ..>` - and run the handshake driver on it. Found by what they hold and call: an async block inside the
    closure given to begin_accept, or a named async fn, at any nesting depth."""
    from ..common import type_holds
    from . import names
    drv = anchors(f).get("driver")
    out = []
    if drv is None:
        return out
    for b in f.bodies:
        if not b.j.get("coroutine_kind") or "::test" in b.path:
            continue
        if not any(fn and (fn["path"] == drv or (fn.get("resolved") or {}).get("path") == drv) for bb, t, fn in b.calls()):
            continue
        holds = False
        for pl in _places(b.j["blocks"]):
            if pl["l"] != 1:
                continue
            for el in pl["p"]:
                ty = el.get("ty") or ""
                if el.get("k") == "field" and ty.startswith("std::result::Result<") and type_holds(f, ty, names.of(f, "FramedIo")):
                    holds = True
        if holds:
            out.append(b)
    return out


_drv_memo = {}


def driver_paths(f, b):
    """Paths of the handshake driver with its crate-private helpers looked through - async ones too (a helper that prepares and
    runs the READY exchange, say) - except the greeting and READY exchanges themselves, which stay calls the rules can name."""
    from .. import pathq
    from ..sym import Sym
    key = (id(f), b.path)
    if key not in _drv_memo:
        roles = {anchors(f).get("greet"), anchors(f).get("ready")} - {None}
        base = pathq.default_inline(f, allow_async=True)

        def pol(fn):
            r = fn.get("resolved") or {}
            path = r.get("path") if r.get("kind") == "item" else fn["path"]
            return path not in roles and base(fn)
        s = Sym(f, max_visits=2, max_paths=50000, inline=pol, inline_depth=3)
        s.inline_async = True
        _drv_memo[key] = s.paths(b)
    return _drv_memo[key]


def greeting_in_driver(f):
    """There is no separate greeting-exchange function: the driver itself sends the greeting, reads the peer's and hands it to the
    version negotiation (found by signature) - the driver then plays the greeting role as well."""
    from .. import pathq
    A = anchors(f)
    if A.get("greet") is not None or A.get("driver") is None or A.get("negotiate") is None:
        return False
    drv = co(f, "driver")
    if drv is None:
        return False
    neg = A["negotiate"]
    return any(fn and (fn["path"] == neg or (fn.get("resolved") or {}).get("path") == neg)
               for k in pathq.scope(f, drv, allow_async=True) for bb, t, fn in k.calls())
