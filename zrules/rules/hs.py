"""Handshake and accept anchors found by signature (shared by C01, C02, C03, C04, C18, C20): none of these crate-private
functions is looked up by its name."""
PROPS_TY = "std::option::Option<std::collections::HashMap<std::string::String, bytes::Bytes"

_memo = {}


def anchors(f):
    """role -> def path:
    ready      async fn taking Option<HashMap<String, Bytes>> (the READY exchange)
    greet      async fn(&mut FramedIo) -> Result<(u8, u8), _> (the greeting exchange; ZmtpVersion = (u8, u8))
    negotiate  fn(Message) -> Result<(u8, u8), _> (version negotiation)
    driver     async fn(FramedIo, Arc<dyn MultiPeerBackend>) (runs both exchanges, then registers)
    accept_tcp / accept_ipc   async fn(.., impl Fn(ZmqResult<(FramedIo, Endpoint)>)) -> Result<(Endpoint, AcceptStopHandle), _>"""
    if id(f) in _memo:
        return _memo[id(f)]
    A = {}
    from . import names
    FIO, ASH = names.of(f, "FramedIo"), names.of(f, "AcceptStopHandle")
    for path, s in f.fns.items():
        if "::test" in path:
            continue
        ins, out, asy = s.get("inputs", []), s.get("output", ""), s.get("is_async")
        if asy and any(t.startswith(PROPS_TY) for t in ins):
            A["ready"] = path
        elif asy and len(ins) == 1 and ins[0].startswith("&mut") and ins[0].split("::")[-1] == FIO and "(u8, u8)" in out:
            A["greet"] = path
        elif not asy and "Result<(u8, u8)" in out and any(t.endswith("codec::Message") for t in ins):
            A["negotiate"] = path
        elif asy and any(t.split("::")[-1] == FIO and not t.startswith("&") for t in ins) and any("dyn MultiPeerBackend" in t for t in ins):
            A["driver"] = path
        elif asy and any(t.startswith("impl Fn(") and FIO in t for t in ins) and ASH in out:
            if any("Path" in t for t in ins):
                A["accept_ipc"] = path
            elif any(t == "u16" for t in ins):
                A["accept_tcp"] = path
            else:
                A["accept_dispatch"] = path
    _memo[id(f)] = A
    return A


def co(f, role):
    """the coroutine body of the async fn playing `role`"""
    p = anchors(f).get(role)
    if p is None:
        return None
    for b in f.bodies:
        if b.j.get("parent") == p and b.j.get("coroutine_kind"):
            return b
    return None


def is_poll_of_role(f, x, role):
    """x is (the result of) polling / calling the future of the async fn playing `role`"""
    p = anchors(f).get(role)
    return p is not None and isinstance(x, tuple) and x and x[0] in ("call", "pure") and (x[1] == p or x[1].startswith(p + "::{closure"))


def _places(j):
    """every place object in a body's JSON"""
    if isinstance(j, dict):
        if "l" in j and "p" in j and isinstance(j["p"], list):
            yield j
        for v in j.values():
            yield from _places(v)
    elif isinstance(j, list):
        for v in j:
            yield from _places(v)


def accept_callbacks(f):
    """The per-connection callback of bind(): the coroutine bodies that are handed the outcome of accept() - a captured
    `Result<.. FramedIo ..>` - and run the handshake driver on it. Found by what they hold and call: an async block inside the
    closure given to begin_accept, or a named async fn, at any nesting depth."""
    from ..common import type_holds
    from . import names
    drv = anchors(f).get("driver")
    out = []
    if drv is None:
        return out
    for b in f.bodies:
        if not b.j.get("coroutine_kind") or "::test" in b.path:
            continue
        if not any(fn and (fn["path"] == drv or (fn.get("resolved") or {}).get("path") == drv) for bb, t, fn in b.calls()):
            continue
        holds = False
        for pl in _places(b.j["blocks"]):
            if pl["l"] != 1:
                continue
            for el in pl["p"]:
                ty = el.get("ty") or ""
                if el.get("k") == "field" and ty.startswith("std::result::Result<") and type_holds(f, ty, names.of(f, "FramedIo")):
                    holds = True
        if holds:
            out.append(b)
    return out
