"""Handshake and accept anchors found by signature (shared by C01, C02, C03, C04, C18, C20): none of these crate-private
functions is looked up by its name."""
PROPS_TY = "std::option::Option<std::collections::HashMap<std::string::String, bytes::Bytes"

_memo = {}


def anchors(f):
    """role -> def path:
    ready      async fn taking Option<HashMap<String, Bytes>> (the READY exchange)
    greet      async fn(&mut FramedIo) -> Result<(u8, u8), _> (the greeting exchange; ZmtpVersion = (u8, u8))
    negotiate  fn(Message) -> Result<(u8, u8), _> (version negotiation)
    driver     async fn(FramedIo, Arc<dyn MultiPeerBackend>) (runs both exchanges, then registers)
    accept_tcp / accept_ipc   async fn(.., impl Fn(ZmqResult<(FramedIo, Endpoint)>)) -> Result<(Endpoint, AcceptStopHandle), _>"""
    if id(f) in _memo:
        return _memo[id(f)]
    A = {}
    for path, s in f.fns.items():
        if "::test" in path:
            continue
        ins, out, asy = s.get("inputs", []), s.get("output", ""), s.get("is_async")
        if asy and any(t.startswith(PROPS_TY) for t in ins):
            A["ready"] = path
        elif asy and len(ins) == 1 and ins[0].startswith("&mut") and ins[0].endswith("framed::FramedIo") and "(u8, u8)" in out:
            A["greet"] = path
        elif not asy and "Result<(u8, u8)" in out and any(t.endswith("codec::Message") for t in ins):
            A["negotiate"] = path
        elif asy and any(t.endswith("framed::FramedIo") and not t.startswith("&") for t in ins) and any("dyn MultiPeerBackend" in t for t in ins):
            A["driver"] = path
        elif asy and any(t.startswith("impl Fn(") and "FramedIo" in t for t in ins) and "AcceptStopHandle" in out:
            if any("Path" in t for t in ins):
                A["accept_ipc"] = path
            elif any(t == "u16" for t in ins):
                A["accept_tcp"] = path
            else:
                A["accept_dispatch"] = path
    _memo[id(f)] = A
    return A


def co(f, role):
    """the coroutine body of the async fn playing `role`"""
    p = anchors(f).get(role)
    if p is None:
        return None
    for b in f.bodies:
        if b.j.get("parent") == p and b.j.get("coroutine_kind"):
            return b
    return None


def is_poll_of_role(f, x, role):
    """x is (the result of) polling / calling the future of the async fn playing `role`"""
    p = anchors(f).get(role)
    return p is not None and isinstance(x, tuple) and x and x[0] in ("call", "pure") and (x[1] == p or x[1].startswith(p + "::{closure"))
