"""C08 - REQ/REP lock-step (structural clauses): typestate of the request markers on every path.

Decides: (R08.1) REQ send writes only on paths that decided "no request in progress"; the refusing exit performs
no write, no store to the socket and returns the caller's message unmodified; after a successful write the
marker is set to the identity of the peer that was written to; (R08.2) REQ recv without a request returns Err
without reading; the marker is cleared only after the last suspension point of recv (the reply, or the failure,
is in hand); (R08.3) REP send writes only when a requester is recorded, to the peer-table entry looked up with
exactly that identity; without one it returns the message untouched and writes nothing; (R08.4) REP recv
records as requester the queue key of the very item whose message it returns, and only on the Ok exit; (R08.5) one
peer-table entry per connection - an anonymous or empty announced identity gets a fresh unique key (C04 R04.3) and a client
reconnecting under the same identity replaces its entry (C04 R04.4, REP backend), both re-evaluated: otherwise one
client's reply is written to another's connection. Does NOT decide concurrent-client histories (argued from R08.3/R08.4 + C05)."""
from ..sym import show, walk_expr
from ..common import is_field, short, store_hits, place_text, names_type
from .. import pathq
from . import names
from .c07 import socket_coroutine, wire_writes, msg_mutations, is_param_msg

EXPLANATION = __doc__
WITNESS = ['C08']
NOT_DECIDED = "interleavings of concurrent clients (follow from R08.3/R08.4 and per-peer FIFO, argued not checked)"
ASSUMPTIONS = ["&mut self on send/recv excludes overlapping calls on one socket (type system; witness crate)",
               "scc::HashMap::get_async(key) returns the entry stored under exactly that key"]
RULES = {
    "R08.1": "REQ send: write only when marker is None; refusal is effect-free and returns the message intact; marker := peer written to",
    "R08.2": "REQ recv: None marker -> Err without any read; marker cleared only after the last await",
    "R08.3": "REP send: write only under Some(requester), to the entry looked up by that id; None -> message returned untouched",
    "R08.4": "REP recv: requester := key of the returned item, stored only on the Ok exit",
    "R08.5": "one peer-table entry per connection: fresh unique key for anonymous clients (C04 R04.3), overwrite on reconnect (C04 R04.4)",
    "R08.F": "foundation clauses re-evaluated as necessary conditions: " + ", ".join(['decoder', 'wakeup']),
}


# marker field path -> (name, discriminant) of the variant that holds the identity: ("Some", 1) for an Option, the payload variant
# of a private two-variant enum that is an Option by another name (`enum RequestState { Idle, AwaitingReply(PeerIdentity) }`)
PAYLOAD = {}


def payload_variant(name):
    return PAYLOAD.get(name, ("Some", 1))[0]


def payload_discr(name):
    return PAYLOAD.get(name, ("Some", 1))[1]


def option_like_enum(f, ty):
    """(payload variant, its discriminant) if `ty` names a crate-private enum with exactly two variants, one fieldless and one
    holding exactly a PeerIdentity"""
    for p2, a2 in f.adts.items():
        nm = p2.split("::", 1)[1] if p2.startswith("zeromq::") else p2
        if a2["kind"] == "Enum" and ty in (nm, p2) and len(a2["variants"]) == 2 and not a2.get("vis", "").startswith("Public"):
            vs = a2["variants"]
            empty = [v for v in vs if not v["fields"]]
            full = [(i, v) for i, v in enumerate(vs) if len(v["fields"]) == 1 and "PeerIdentity" in v["fields"][0]["ty"]]
            if len(empty) == 1 and len(full) == 1:
                i, v = full[0]
                return v["name"], (v["discr"] if v.get("discr") is not None else i)
    return None


def marker_field(f, ty_suffix):
    """field path (`name`, or `name.0` through a private newtype) of the socket's Option<PeerIdentity> marker, by type"""
    def is_opt_id(ty):
        return ty.startswith("std::option::Option<") and "PeerIdentity" in ty
    for p, a in f.adts.items():
        if names_type(p, ty_suffix):
            for fl in a["variants"][0]["fields"]:
                oe = option_like_enum(f, fl["ty"])
                if oe is not None and not any(is_opt_id(x["ty"]) for x in a["variants"][0]["fields"]):
                    PAYLOAD[fl["name"]] = oe
                    return fl["name"]
            for fl in a["variants"][0]["fields"]:
                if is_opt_id(fl["ty"]):
                    return fl["name"]
            for fl in a["variants"][0]["fields"]:
                for p2, a2 in f.adts.items():
                    nm = p2.split("::", 1)[1] if p2.startswith("zeromq::") else p2
                    if a2["kind"] == "Struct" and fl["ty"] in (nm, p2) and len(a2["variants"][0]["fields"]) == 1 and is_opt_id(a2["variants"][0]["fields"][0]["ty"]):
                        return "%s.%s" % (fl["name"], a2["variants"][0]["fields"][0]["name"])
            # ... or in a private sub-struct that groups the socket's state
            for fl in a["variants"][0]["fields"]:
                for p2, a2 in f.adts.items():
                    nm = p2.split("::", 1)[1] if p2.startswith("zeromq::") else p2
                    if a2["kind"] == "Struct" and fl["ty"] in (nm, p2) and not a2.get("vis", "").startswith("Public"):
                        for y in a2["variants"][0]["fields"]:
                            if is_opt_id(y["ty"]):
                                return "%s.%s" % (fl["name"], y["name"])
    return None


def is_marker(x, name):
    """x is the marker field itself, or take()/clone()/as_ref() of it (not a value merely derived from it)."""
    while isinstance(x, tuple) and x:
        if x[0] in ("ref", "deref"):
            x = x[1]
        elif x[0] in ("call", "pure") and short(x[1]) in ("take", "clone", "cloned", "copied", "as_ref", "as_mut", "replace", "as_deref") and not x[1].endswith("}") and x[2]:
            x = x[2][0]
        elif x[0] == "havoc":
            x = x[3]
        else:
            break
    return isinstance(x, tuple) and x and x[0] == "field" and place_text(x).endswith("." + name)


def strip_view(x):
    """the value behind `&x`, `x.clone()`, `*x`, a cast (still the same identity value)"""
    while isinstance(x, tuple) and x:
        if x[0] in ("ref", "deref", "cast"):
            x = x[1]
        elif x[0] in ("call", "pure") and short(x[1]) in ("clone", "as_ref", "borrow", "to_owned") and not x[1].endswith("}") and len(x[2]) == 1:
            x = x[2][0]
        else:
            break
    return x


def is_marker_payload(x, name):
    """x IS the identity held in the marker (the Some payload of the marker field, possibly taken / cloned / borrowed),
    not merely something computed from it"""
    x = strip_view(x)
    return isinstance(x, tuple) and x and x[0] == "field" and x[1][0] == "downcast" and x[1][2] == payload_variant(name) and is_marker(x[1][1], name)


def marker_decisions(p, name, upto=None):
    """[(is_some truth)] decisions about the marker field on the path prefix"""
    out = []
    conds = p.conds if upto is None else p.conds[:upto]
    for (e, c, _, _) in conds:
        if e[0] in ("pure", "call") and short(e[1]) in ("is_some", "is_none") and e[2] and is_marker(e[2][0], name):
            t = pathq.truth(c)
            if t is not None:
                out.append(t if short(e[1]) == "is_some" else (not t))
        elif e[0] == "discr" and c[0] == "eq" and is_marker(e[1], name):
            out.append(c[1] == payload_discr(name))
    return out


def lookup_call(e):
    return pathq.mentions_call(e, lambda x: short(x[1]) == "get_async" and not x[1].endswith("}"))


def self_stores(p, upto=None):
    evs = p.events if upto is None else p.events[:upto]
    return [ev for ev in evs if ev.kind == "store" and ev.place.startswith("(*_") and not ev.place.startswith("(*_1)")]


DEPENDS = ['decoder', 'wakeup']     # foundation groups re-evaluated as necessary conditions (rules/found.py)


def run(ctx, f, rep):
    from . import found
    found.import_groups(ctx, f, rep, 'C08', DEPENDS)
    mreq = marker_field(f, "req::ReqSocket")
    mrep = marker_field(f, "rep::RepSocket")
    rep.check(mreq is not None, "R08.1", "R08.1|marker-anchor", "REQ request marker field (Option<PeerIdentity>): %s" % mreq)
    rep.check(mrep is not None, "R08.3", "R08.3|marker-anchor", "REP requester field (Option<PeerIdentity>): %s" % mrep)
    if not mreq or not mrep:
        return
    # ---------------- REQ send
    co = socket_coroutine(f, "SocketSend", "send", "ReqSocket")
    if co is None:
        rep.bad("R08.1", "R08.1|anchor", "ReqSocket::send not found (anchor-missing)")
    else:
        nw = nref = 0
        for p in pathq.paths(f, co, inline_async=True):
            for i, ev in wire_writes(p):
                nw += 1
                dec = marker_decisions(p, mreq, ev.ncond)
                rep.check(dec == [False] or (dec and all(d is False for d in dec)), "R08.1", "R08.1|write-only-when-idle",
                          "REQ writes a request only on paths that found no request in progress (marker decisions: %s)" % dec, co.loc(ev.bb))
            dec = marker_decisions(p, mreq)
            if dec and dec[0] is True and p.end == "return":
                nref += 1
                ww = wire_writes(p)
                st = [s for s in p.events if store_hits(s, mreq)]
                muts = msg_mutations(p, is_param_msg)
                pops = [ev for i, ev in pathq.calls(p, "pop", "push") if "SegQueue" in ev.name]
                rts = p.ret is not None and "ReturnToSender" in show(p.ret) and is_param_msg(p.ret)
                rep.check(not ww and not st and not muts and not pops and rts, "R08.1", "R08.1|refusal-effect-free",
                          "an out-of-turn send fails with ReturnToSender carrying the caller's message, writes nothing and changes nothing "
                          "(writes=%d marker stores=%d message mutations=%s rotation ops=%d returns message=%s)" % (len(ww), len(st), [short(m.name) for _, m in muts], len(pops), rts), co.loc())
            if p.end == "return" and pathq.ret_kind(p) == "Ok":
                ww = wire_writes(p)
                st = [(i, s) for i, s in enumerate(p.events) if store_hits(s, mreq)]
                ok = False
                why = "no marker store"
                if ww and st:
                    wi, wev = ww[-1]
                    si, sev = st[-1]
                    v = sev.value
                    some_id = v[0] == "agg" and v[3] == payload_variant(mreq)
                    # the id stored is the one popped from the rotation and used for the lookup of the written entry
                    popped = pathq.mentions_call(v, lambda x: short(x[1]) == "pop" and "SegQueue" in x[1])
                    looked = lookup_call(wev.args[0])
                    # the lookup key IS the popped id (its Some payload), and so is the id stored in the marker
                    def is_popped(x):
                        x = strip_view(x)
                        return x[0] == "field" and x[1][0] == "downcast" and x[1][2] == "Some" and x[1][1] == popped
                    same = popped is not None and looked is not None and len(looked[2]) > 1 and is_popped(looked[2][1]) and v[4] and is_popped(v[4][0])
                    ok = some_id and same and si > wi
                    why = "stores Some(id)=%s, id is the popped/looked-up peer=%s, after the write=%s" % (some_id, same, si > wi)
                rep.check(ok, "R08.1", "R08.1|marker-set-to-written-peer", "after a successful write the marker names the peer written to (%s)" % why, co.loc())
        rep.floor("R08.1", "wire writes on REQ send paths", nw, 1)
        rep.floor("R08.1", "refusing (request in progress) exits of REQ send", nref, 1)
    # ---------------- REQ recv
    co = socket_coroutine(f, "SocketRecv", "recv", "ReqSocket")
    if co is None:
        rep.bad("R08.2", "R08.2|anchor", "ReqSocket::recv not found (anchor-missing)")
    else:
        nnone = 0
        for p in pathq.paths(f, co, inline_async=True):
            dec = marker_decisions(p, mreq)
            if dec and dec[0] is False and p.end == "return":
                nnone += 1
                reads = pathq.calls(p, "next", "get_async", "poll_next")
                rep.check(pathq.ret_kind(p) == "Err" and not reads, "R08.2", "R08.2|recv-without-request",
                          "recv without an outstanding request returns Err and reads nothing (reads: %s)" % [short(e.name) for _, e in reads], co.loc())
            # marker cleared only after the last yield on the path
            clear = [i for i, s in enumerate(p.events) if (store_hits(s, mreq)) or
                     (s.kind == "call" and short(s.name) in ("take", "replace") and s.args and any(is_field(x, mreq) for x in walk_expr(s.args[0])))]
            yields = [i for i, s in enumerate(p.events) if s.kind == "yield"]
            polls = [i for i, s in enumerate(p.events) if pathq.is_poll(s) and (s.name.endswith("}") or "Next" in s.name)]
            if clear:
                later = [y for y in yields + polls if y > clear[0]]
                rep.check(not later, "R08.2", "R08.2|marker-cleared-after-last-await",
                          "the REQ marker is cleared only once nothing remains to be awaited (suspension points after the clearing: %d)" % len(later), co.loc(p.events[clear[0]].bb))
        rep.floor("R08.2", "no-request exits of REQ recv", nnone, 1)
    # ---------------- REP send
    co = socket_coroutine(f, "SocketSend", "send", "RepSocket")
    if co is None:
        rep.bad("R08.3", "R08.3|anchor", "RepSocket::send not found (anchor-missing)")
    else:
        nw = nnone = 0
        for p in pathq.paths(f, co, inline_async=True):
            for i, ev in wire_writes(p):
                nw += 1
                dec = marker_decisions(p, mrep, ev.ncond)
                looked = lookup_call(ev.args[0])
                key_from_marker = looked is not None and len(looked[2]) > 1 and is_marker_payload(looked[2][1], mrep)
                rep.check(dec and dec[0] is True and key_from_marker, "R08.3", "R08.3|reply-to-requester",
                          "REP writes the reply only when a requester is recorded (%s) and to the entry looked up with that identity (%s)" % (dec, key_from_marker), co.loc(ev.bb))
            dec = marker_decisions(p, mrep)
            if dec and dec[0] is False and p.end == "return":
                nnone += 1
                ww = wire_writes(p)
                muts = msg_mutations(p, is_param_msg)
                rts = p.ret is not None and "ReturnToSender" in show(p.ret) and is_param_msg(p.ret)
                rep.check(not ww and not muts and rts, "R08.3", "R08.3|reply-without-request",
                          "a reply without a request fails with ReturnToSender carrying the message untouched and writes nothing (writes=%d mutations=%s)" % (len(ww), [short(m.name) for _, m in muts]), co.loc())
        rep.floor("R08.3", "wire writes on REP send paths", nw, 1)
        rep.floor("R08.3", "no-request exits of REP send", nnone, 1)
    # ---------------- REP recv
    co = socket_coroutine(f, "SocketRecv", "recv", "RepSocket")
    if co is None:
        rep.bad("R08.4", "R08.4|anchor", "RepSocket::recv not found (anchor-missing)")
    else:
        nok = 0
        for p in pathq.paths(f, co, max_visits=2, inline_async=True):
            if p.end != "return":
                continue
            st = [s for s in p.events if store_hits(s, mrep)]
            rk = pathq.ret_kind(p)
            if rk == "Ok":
                nok += 1
                ok = False
                why = "stores=%d" % len(st)
                if len(st) == 1:
                    v = st[0].value
                    # Some(((item as Some).0).0) and the returned message comes from ((item as Some).0).1 of the same item
                    key = v[4][0] if v[0] == "agg" and v[3] == payload_variant(mrep) and v[4] else None
                    item_k = pathq.mentions_call(key, lambda x: short(x[1]) in ("poll", "poll_next")) if key is not None else None
                    item_m = pathq.mentions_call(p.ret, lambda x: short(x[1]) in ("poll", "poll_next"))
                    is_key = key is not None and key[0] == "field" and key[2] in (0, "0")
                    ok = item_k is not None and item_k == item_m and is_key
                    why = "requester is field .0 of the received item=%s, same item as the returned message=%s" % (is_key, item_k is not None and item_k == item_m)
                rep.check(ok, "R08.4", "R08.4|requester-is-sender", "REP records as requester the connection the returned request arrived on (%s)" % why, co.loc())
            elif rk == "Err":
                rep.check(not st, "R08.4", "R08.4|err-exit-keeps-requester", "an error exit of REP recv does not change the recorded requester (stores=%d)" % len(st), co.loc())
        rep.floor("R08.4", "Ok exits of REP recv", nok, 1)
    # ---------------- R08.5: "every client receives the replies to its own requests and nobody else's" needs one table entry per
    # connection: an anonymous client (no Identity, or an empty one as libzmq announces) gets a fresh unique key (C04 R04.3), and a
    # client that comes back under the same identity replaces its old entry (C04 R04.4 for the REP backend) - re-evaluated here
    from . import c04
    from ..report import Report
    sub = Report("C08", rep.config)
    c04.check_identity(f, sub)
    n = 0
    for o in sub.obls:
        n += 1
        (rep.ok if o.ok else rep.bad)("R08.5", o.key.replace("R04.3", "R08.5", 1), o.what, o.loc, o.detail)
    sub = Report("C08", rep.config)
    c04.check_registration(f, sub)
    for o in sub.obls:
        if names.of(f, "RepSocketBackend") in o.key and o.rule == "R04.4":
            n += 1
            (rep.ok if o.ok else rep.bad)("R08.5", o.key.replace("R04.4", "R08.5", 1), o.what, o.loc, o.detail)
    rep.floor("R08.5", "identity / registration obligations re-evaluated", n, 5)
