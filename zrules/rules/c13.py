"""C13 - SUB subscriptions reach every peer, including late joiners (structural clauses).

Decides: (R13.1) the SUB backend's peer_connected snapshots the subscription set under its lock into SUBSCRIBE
messages and sends each of them to the new peer before registering it; a failed announcement drops the peer
without panicking and without registering it; registration overwrites a stale entry with the same identity; (R13.2) subscribe/unsubscribe
change the set *before* broadcasting the matching SUBSCRIBE/UNSUBSCRIBE message, and the broadcast walks the
whole peer table; (R13.3) inside the broadcast a failed send to one peer does not end the loop; (R13.4) no
suspension point lies between taking the snapshot and making the new peer visible to subscribe() (the
snapshot/registration window) - today's tree has such a window: KNOWN FINDING F13b; (R13.5) the wire follows the
set: a call that does not change the (idempotent) set sends nothing; (R13.6) the message builder (found by signature)
writes exactly the type byte (the enum as u8: SUBSCRIBE = 1, UNSUBSCRIBE = 0) followed by the topic bytes.
Does NOT decide agreement at quiescent points under real interleavings."""
import re
from ..sym import show, walk_expr
from ..common import short, trait_impls, coroutine_of, type_holds, strip_view
from .. import pathq
from . import names
from ..report import Report
from .c07 import wire_writes

EXPLANATION = __doc__
NOT_DECIDED = "quiescent-state agreement under real schedules (one race window is detected structurally and listed as a known finding)"
ASSUMPTIONS = ["HashSet::insert/remove return whether the set changed", "scc begin_async/next_async visit every entry present for the whole walk"]
RULES = {
    "R13.1": "re-announce (from the set, under its lock) then register; failed announce -> peer dropped, no panic; overwrite semantics",
    "R13.2": "set updated before the broadcast; broadcast walks the whole table with the matching message type",
    "R13.3": "one peer's failed send does not abort the broadcast",
    "R13.4": "no suspension point between snapshot and registration",
    "R13.5": "nothing is broadcast when the set did not change",
    "R13.6": "the subscription message is one frame: [type as u8] ++ topic bytes",
    "R13.F": "foundation clauses re-evaluated as necessary conditions: " + ", ".join(['decoder']),
}


def sub_backend(f):
    for ty, outer in trait_impls(f, "MultiPeerBackend", "peer_connected").items():
        if ty.split("::")[-1] == names.of(f, "SubSocketBackend"):
            return ty, coroutine_of(f, outer)
    return None, None


def anchors(f):
    """The subscription-message builder and the broadcast loop, found by signature: the message type is the local fieldless
    two-variant enum (discriminants 0/1 = the RFC's first byte) that a function returning ZmqMessage takes; the broadcast is
    the async fn that takes the same enum. -> dict(enum, builder, builder_ty_arg, builder_topic_arg, bcast, bcast_ty_arg, bcast_topic_arg)"""
    def enum_of(ty):
        for p_, a in f.adts.items():
            if (p_ == ty or p_.endswith("::" + ty)) and a["kind"] == "Enum" and len(a["variants"]) == 2 and all(not v["fields"] for v in a["variants"]):
                ds = sorted((v["discr"] if v["discr"] is not None else i) for i, v in enumerate(a["variants"]))
                if ds == [0, 1]:
                    return p_
        return None
    out = {}
    for path, s in f.fns.items():
        if "::test" in path:
            continue
        for i, ty in enumerate(s.get("inputs", [])):
            en = enum_of(ty)
            if en is None:
                continue
            topic = next((j for j, t2 in enumerate(s["inputs"]) if re.sub(r"&'[a-z_0-9]+ ", "&", t2) in ("&str", "&std::string::String", "std::string::String", "&[u8]")), None)
            if "ZmqMessage" in s.get("output", "") and not s.get("is_async"):
                out.update(enum=en, builder=path, builder_ty_arg=i, builder_topic_arg=topic)
            elif s.get("is_async"):
                out.update(bcast=path, bcast_ty_arg=i, bcast_topic_arg=topic)
    return out


def msg_type_value(f, e):
    """1 (SUBSCRIBE) / 0 (UNSUBSCRIBE): the discriminant of the message-type variant an expression names"""
    while e[0] == "ref":
        e = e[1]
    if e[0] == "agg" and e[1] == "adt" and e[2] in f.adts:
        for i, v in enumerate(f.adts[e[2]]["variants"]):
            if v["name"] == e[3]:
                return v["discr"] if v["discr"] is not None else i
    return None


def check_builder(f, rep, A):
    """R13.6: the message a peer receives is one frame: the type byte (enum as u8) followed by the topic bytes"""
    b = f.body(A["builder"])
    n = 0
    for p in pathq.paths(f, b):
        if p.end != "return":
            continue
        n += 1
        ty_arg = ("arg", A["builder_ty_arg"] + 1)
        topic_arg = ("arg", A["builder_topic_arg"] + 1) if A["builder_topic_arg"] is not None else None
        writes = [(i, ev) for i, ev in pathq.calls(p) if short(ev.name) in ("put_u8", "put_slice", "extend_from_slice", "put", "push", "extend", "put_u16", "put_u32", "put_u64", "put_bytes", "resize")
                  and ("BytesMut" in ev.name or "BufMut" in ev.name or "Vec" in ev.name)]
        ok = len(writes) == 2
        if ok:
            (i0, w0), (i1, w1) = writes
            first = short(w0.name) in ("put_u8", "push") and any(y == ty_arg for y in walk_expr(w0.args[1])) and \
                (w0.args[1][0] == "cast" or w0.args[1][0] == "discr")
            rest = short(w1.name) in ("put_slice", "extend_from_slice", "put", "extend") and topic_arg is not None and any(y == topic_arg for y in walk_expr(w1.args[1]))
            ok = first and rest
        rep.check(ok, "R13.6", "R13.6|builder|type-byte-then-topic", "the subscription message is [type as u8] ++ topic bytes, written once each in that order (writes: %s)" % [short(w.name) for _, w in writes], b.loc())
    rep.floor("R13.6", "returning paths of the message builder", n, 1)


_F = [None]


def is_subs_lock(ev):
    """lock() of the mutex that guards the subscription set: a Mutex field whose payload is, or wraps, a HashSet"""
    return ev.kind == "call" and short(ev.name) == "lock" and ev.args and any(
        isinstance(x, tuple) and x and x[0] == "field" and "Mutex<" in str(x[3]) and type_holds(_F[0], str(x[3]), "HashSet") for x in walk_expr(ev.args[0]))


DEPENDS = ['decoder']     # foundation groups re-evaluated as necessary conditions (rules/found.py)


def run(ctx, f, rep):
    from . import found
    found.import_groups(ctx, f, rep, 'C13', DEPENDS)
    _F[0] = f
    A = anchors(f)
    have = all(k in A for k in ("enum", "builder", "bcast"))
    rep.check(have, "R13.2", "R13.2|anchors", "subscription message type, builder and broadcast loop found by signature: %s" % {k: v for k, v in A.items() if isinstance(v, str)})
    if not have:
        return
    check_builder(f, rep, A)
    ty, co = sub_backend(f)
    if co is None:
        rep.bad("R13.1", "R13.1|anchor", "SUB backend peer_connected not found (anchor-missing)")
    else:
        nreg = 0
        window = 0
        for p in pathq.paths(f, co, max_visits=2, inline_async=True):
            if p.end != "return":
                continue
            tab = [(i, e) for i, e in pathq.calls(p, "upsert_async", "upsert_sync", "insert_async", "insert_sync") if "scc::" in e.name]
            if not tab:
                # not registered: must be because an announcement failed
                failed = any(e[0] == "discr" and c == ("eq", 1) and e[1][0] in ("field", "downcast") and
                             pathq.mentions_call(e[1], lambda y: short(y[1]) == "poll" and "sink::Send" in y[1]) is not None for (e, c, _, _) in p.conds)
                rep.check(failed, "R13.1", "R13.1|unregistered-only-after-failed-announce", "a new peer is left unregistered only when announcing the subscriptions to it failed", co.loc())
                continue
            nreg += 1
            ti, tev = tab[0]
            # ... and never after one: a connection that already failed while it was being told the subscriptions is not registered
            # (the Result inside Poll::Ready - field/downcast of the poll - decided Err; `discr(poll) == 1` alone is Pending)
            failed_before = any(e[0] == "discr" and c == ("eq", 1) and e[1][0] in ("field", "downcast") and
                                pathq.mentions_call(e[1], lambda y: short(y[1]) == "poll" and "sink::Send" in y[1]) is not None
                                for (e, c, _, _) in p.conds[:tev.ncond])
            rep.check(not failed_before, "R13.1", "R13.1|failed-announce-not-registered",
                      "a peer whose connection failed during the announcement is dropped, not registered (a dead entry would make every later subscribe() fail)", co.loc(tev.bb))
            locks = [(i, ev) for i, ev in enumerate(p.events[:ti]) if is_subs_lock(ev)]
            coll = [(i, ev) for i, ev in pathq.calls(p, "collect", upto=ti)]
            snap = bool(locks) and bool(coll) and pathq.mentions_call(coll[-1][1].args[0], lambda y: short(y[1]) == "map") is not None and \
                pathq.mentions_call(coll[-1][1].args[0], lambda y: short(y[1]) == "iter") is not None
            rep.check(snap, "R13.1", "R13.1|snapshot-from-set", "before registering, the current subscription set is read under its lock and mapped to messages (lock %s, iter().map().collect() %s)" % (bool(locks), bool(coll)), co.loc())
            sends = [(i, ev) for i, ev in wire_writes(p) if i < ti]
            for i, ev in sends:
                item = ev.args[1]
                from_snapshot = pathq.mentions_call(item, lambda y: short(y[1]) == "next" and "IntoIter" in y[1]) is not None or pathq.mentions_call(item, lambda y: short(y[1]) in ("into_iter",)) is not None
                rep.check(from_snapshot and item[0] == "agg" and item[3] == "Message", "R13.1", "R13.1|announce-each-topic",
                          "each message sent to the new peer before registration is an element of the snapshot", co.loc(ev.bb))
            # loop shape: the snapshot vector is iterated to exhaustion before registering
            exhausted = any(e[0] == "discr" and c == ("eq", 0) and e[1][0] in ("call", "pure") and short(e[1][1]) == "next" and "IntoIter" in e[1][1] for (e, c, _, _) in p.conds[:tev.ncond])
            rep.check(exhausted, "R13.1", "R13.1|announce-all-before-register", "registration happens only after the snapshot has been sent completely", co.loc(tev.bb))
            # R13.4 window
            if coll:
                ci = coll[-1][0]
                ys = [i for i, ev in enumerate(p.events) if ev.kind == "yield" and ci < i < ti]
                aw = [i for i, ev in enumerate(p.events) if pathq.is_poll(ev) and ci < i < ti]
                if ys or aw:
                    window += 1
        rep.floor("R13.1", "registering paths of the SUB backend", nreg, 1)
        rep.check(window == 0, "R13.4", "R13.4|SUB-backend|snapshot-to-registration-window",
                  "no suspension point between reading the subscription set and registering the new peer (%d registering paths await the announcement sends in between: "
                  "a subscribe() running in that window updates the set and walks a table that does not contain the new peer)" % window, co.loc())
        # snapshot closure builds SUBSCRIBE messages
        kids = [k for k in pathq.scope(f, co) if k.kind == "Closure" and not k.j.get("coroutine_kind")]
        okk = False
        for k in kids:
            for p in pathq.paths(f, k):
                for i, ev in pathq.calls(p):
                    if ev.name != A["builder"]:
                        continue
                    a = ev.args[A["builder_ty_arg"]] if len(ev.args) > A["builder_ty_arg"] else None
                    if a is not None and msg_type_value(f, a) == 1:
                        okk = True
        rep.check(okk, "R13.1", "R13.1|snapshot-message-type", "the re-announcement messages are SUBSCRIBE messages", co.loc())
        # no unwrap on a send
        unw = [b for b in [co] for bb, t, fn in b.calls() if fn and fn["name"] in ("unwrap", "expect") and "Result" in fn["path"]]
        rep.check(not unw, "R13.1", "R13.1|no-unwrap-on-announce", "a failed announcement is handled, not unwrapped", co.loc())
        # overwrite semantics (shared with C04 R04.4)
        from . import c04
        sub = Report("C13", rep.config)
        c04.check_registration(f, sub)
        for o in sub.obls:
            if names.of(f, "SubSocketBackend") in o.key and "overwrite" in o.key:
                (rep.ok if o.ok else rep.bad)("R13.1", o.key.replace("R04.4", "R13.1", 1), o.what, o.loc, o.detail)
    # ---- subscribe / unsubscribe
    for fn_name, setop, want_type in (("subscribe", "insert", 1), ("unsubscribe", "remove", 0)):
        bs = [b for b in f.bodies if b.path.endswith("::SubSocket::%s::{closure#0}" % fn_name)]
        rep.floor("R13.2", "SubSocket::%s" % fn_name, len(bs), 1)
        for b in bs:
            nb = 0
            for p in pathq.paths(f, b):
                if p.end != "return":
                    continue
                ops = [(i, ev) for i, ev in enumerate(p.events) if ev.kind == "call" and short(ev.name) in ("insert", "remove", "replace", "take") and "HashSet" in ev.name]
                bc = [(i, ev) for i, ev in pathq.calls(p) if ev.name == A["bcast"]]
                for i, ev in bc:
                    nb += 1
                    before = [o for o in ops if o[0] < i and short(o[1].name) == setop]
                    rep.check(len(before) == 1 and len(ops) == 1, "R13.2", "R13.2|%s|set-updated-first" % fn_name,
                              "%s changes the set (%s) before it broadcasts, and only once (set operations before the broadcast: %s, all: %s)" % (
                                  fn_name, setop, [short(o[1].name) for o in before], [short(o[1].name) for o in ops]), b.loc(ev.bb))
                    mt = ev.args[A["bcast_ty_arg"]] if len(ev.args) > A["bcast_ty_arg"] else None
                    txt = show(mt) if mt is not None else ""
                    is_type = mt is not None and msg_type_value(f, mt) == want_type
                    rep.check(is_type, "R13.2", "R13.2|%s|message-type" % fn_name, "%s broadcasts a message of type byte %d (%s)" % (fn_name, want_type, txt[:60]), b.loc(ev.bb))
                    ta = A.get("bcast_topic_arg")
                    # the broadcast topic IS the caller's argument (a captured parameter of the async fn), through borrows only
                    tv = strip_view(ev.args[ta]) if (ta is not None and len(ev.args) > ta) else None
                    topic_same = bool(before) and tv is not None and tv[0] == "field" and tv[1] == ("arg", 1)
                    # ... and the set is changed with that same topic (an owned copy of it, nothing else)
                    set_same = False
                    if before:
                        sa = before[0][1].args[1] if len(before[0][1].args) > 1 else None
                        set_same = sa is not None and any(isinstance(x, tuple) and x and x[0] == "field" and x[1] == ("arg", 1) for x in walk_expr(sa)) and \
                            pathq.only_calls(sa, ("to_string", "to_owned", "from", "into", "clone", "as_ref", "borrow", "as_str", "deref"))
                    rep.check(bool(topic_same) and set_same, "R13.2", "R13.2|%s|same-topic" % fn_name,
                              "%s changes the set with, and broadcasts, the topic it was called with (broadcast %s, set %s)" % (fn_name, bool(topic_same), set_same), b.loc(ev.bb))
                    # R13.5: only when the set changed
                    if before:
                        res = before[0][1].result
                        changed = any(pathq.truth(c) is True and (e == res) for (e, c, _, _) in p.conds[:ev.ncond])
                        rep.check(changed, "R13.5", "R13.5|%s|only-on-change" % fn_name,
                                  "%s puts a message on the wire only when %s() reported that the set changed (publishers count every message they receive)" % (fn_name, setop), b.loc(ev.bb))
                if not bc:
                    # no broadcast: legitimate only when the set did not change
                    unchanged = any(pathq.truth(c) is False and e[0] in ("call", "pure") and short(e[1]) == setop and "HashSet" in e[1] for (e, c, _, _) in p.conds)
                    okret = pathq.ret_kind(p) == "Ok"
                    rep.check(unchanged and okret and len(ops) == 1, "R13.5", "R13.5|%s|no-change-no-message" % fn_name,
                              "%s returns Ok without sending exactly when the set did not change" % fn_name, b.loc())
                else:
                    # error of the broadcast propagated
                    pass
            rep.floor("R13.2", "%s: broadcast events on paths" % fn_name, nb, 1)
    # ---- process_subs
    ps = [b for b in f.bodies if b.j.get("coroutine_kind") and b.j.get("parent") == A["bcast"]]
    rep.floor("R13.3", "broadcast loop (the async fn taking the message type)", len(ps), 1)
    for b in ps:
        nfail = nwalk = 0
        for p in pathq.paths(f, b, max_visits=2, inline_async=True):
            its = [(i, ev) for i, ev in pathq.calls(p, "begin_async", "next_async")]
            sends = wire_writes(p)
            for i, ev in sends:
                nwalk += 1
                sink = ev.args[0]
                on_entry = pathq.mentions_call(sink, lambda y: short(y[1]) in ("begin_async", "next_async") and not y[1].endswith("}")) is not None
                item = ev.args[1]
                # (the builder's result, as a call - or, when the builder is private and was looked through, as the value that call
                # event carries)
                built = [e2.result for e2 in p.events[:i] if e2.kind == "call" and e2.name == A["builder"] and e2.extra == "inlined" and e2.result is not None]
                is_msg = item[0] == "agg" and item[3] == "Message" and (
                    pathq.mentions_call(item, lambda y: y[1] == A["builder"]) is not None or
                    any(any(y == r_ for y in walk_expr(item)) for r_ in built))
                rep.check(on_entry and is_msg, "R13.2", "R13.2|broadcast|to-each-entry", "the broadcast sends the subscription message to the entry the walk is at", b.loc(ev.bb))
                # outcome decided Err?
                res = None
                for j, e2 in enumerate(p.events[i + 1:], i + 1):
                    if pathq.is_poll(e2) and "sink::Send" in e2.name:
                        res = e2.result
                failed = res is not None and any(e[0] == "discr" and c == ("eq", 1) and e[1][0] in ("field",) and pathq.mentions_call(e[1], lambda y: y == res) is not None for (e, c, _, _) in p.conds)
                failed = failed or any(e[0] == "discr" and c == ("eq", 1) and e[1][0] in ("pure", "call") and short(e[1][1]) == "branch" and
                                       pathq.mentions_call(e[1], lambda y: short(y[1]) == "poll" and "sink::Send" in y[1]) is not None for (e, c, _, _) in p.conds)
                if failed:
                    later_steps = [k for k, e2 in its if k > i]
                    is_last_send = (i, ev) == sends[-1]
                    if is_last_send:
                        nfail += 1
                        aborted = p.end == "return" and not later_steps
                        rep.check(not aborted, "R13.3", "R13.3|broadcast|failure-does-not-abort",
                                  "after a failed send to one peer the walk continues with the next entry (function returned at once: %s)" % aborted, b.loc(ev.bb))
            # whole table: the function returns only after the walk yielded None
            if p.end == "return" and pathq.ret_kind(p) == "Ok" and its:
                last = its[-1][1]
                ended = any(e[0] == "discr" and c == ("eq", 0) and e[1][0] in ("field", "downcast") and pathq.mentions_call(e[1], lambda y: y == last.result) is not None for (e, c, _, _) in p.conds)
                rep.check(ended, "R13.2", "R13.2|broadcast|whole-table", "the broadcast reports success only after the walk over the peer table ended", b.loc())
        rep.floor("R13.2", "broadcast send events on paths", nwalk, 1)
        rep.floor("R13.3", "failed-send arms on broadcast paths", nfail, 1)
