"""Anchors and shared rules for the accept tasks (used by C17, C18, C20)."""
from ..sym import show, walk_expr
from ..common import short, awaits, type_holds
from .. import pathq
from . import names


def _is_accept(fn):
    return bool(fn) and fn["name"] == "accept" and ("Listener" in fn["path"] or "Listener" in str(fn.get("resolved")))


_accepting_memo = {}


def accepting_helpers(f):
    """paths of crate-private async helpers (and of their coroutine bodies) that perform `<listener>.accept()`: polling one of them is
    polling accept()"""
    if id(f) in _accepting_memo:
        return _accepting_memo[id(f)]
    out = set()
    for path, sig in f.fns.items():
        if not sig.get("is_async") or sig.get("vis", "").startswith("Public") or "::test" in path:
            continue
        b = f.body(path)
        if b is None or b.j.get("impl_trait"):
            continue
        kids = [k for k in f.children(b) if k.j.get("coroutine_kind") and k.j.get("parent") == path]
        # a helper that accepts one connection and returns it - not one that spawns the loop
        if any(fn and fn["name"] == "spawn" for k in [b] + kids for bb, t, fn in k.calls()):
            continue
        if any(_is_accept(fn) for k in kids for bb, t, fn in k.calls()):
            out.add(path)
            out.update(k.path for k in kids)
    _accepting_memo[id(f)] = out
    return out


def accept_tasks(f):
    """The spawned accept loops (one per transport): coroutine bodies that call `<listener>.accept()` themselves or through a private
    helper (a shared loop that is handed `listener.accept()` as a closure, a helper that accepts one connection)."""
    helpers = accepting_helpers(f)
    out = [b for b in f.bodies if b.j.get("coroutine_kind") and b.path not in helpers and any(_is_accept(fn) for bb, t, fn in b.calls())]
    if out:
        return out
    # then the accept task is the spawned coroutine whose scope (helpers and closures looked through) reaches accept()
    for b in f.bodies:
        if not b.j.get("coroutine_kind") or "::test" in b.path or b.path in helpers:
            continue
        parent = f.body(b.j.get("parent")) if b.j.get("parent") else None
        if parent is None or not parent.j.get("coroutine_kind"):
            continue
        spawned = any(fn and fn["name"] == "spawn" for bb, t, fn in parent.calls())
        if spawned and any(_is_accept(fn) for k in pathq.scope(f, b, allow_async=True) for bb, t, fn in k.calls()):
            out.append(b)
    return out


def select_arm(e):
    """(k, poll) if e goes through `(poll_fn result as _k)`"""
    for x in walk_expr(e):
        if isinstance(x, tuple) and x and x[0] == "downcast" and isinstance(x[2], str) and x[2].startswith("_") and x[2][1:].isdigit():
            return int(x[2][1:])
    return None


def arm_feeds(p, f=None):
    """select arm index -> 'accept' | 'stop' from the capture order of the select closure on this path"""
    out = {}
    helpers = accepting_helpers(f) if f is not None else set()
    for i, ev in pathq.calls(p, "poll_fn"):
        clo = ev.args[0]
        if clo[0] != "agg":
            continue
        for k, op in enumerate(clo[4]):
            if pathq.mentions_call(op, lambda y: short(y[1]) == "accept" or y[1] in helpers) is not None or \
                    any(isinstance(x, tuple) and len(x) > 2 and x[0] == "agg" and x[1] == "coroutine" and x[2] in helpers for x in walk_expr(op)):
                out[k] = "accept"
            elif pathq.mentions_call(op, lambda y: short(y[1]) == "fuse") is not None:
                out[k] = "stop"
    return out


def check_accept_loop(f, rep, rule, b, key_prefix):
    """The accept loop never awaits the connection callback: its only suspension points are the select over
    accept()/stop (and, for IPC, the unlink after the loop); the callback's future is handed to spawn."""
    aw = awaits(b)
    # every future the task polls - in its own body or in a private async helper looked through - is the select or the unlink
    polled = {}
    for p in pathq.paths(f, b, max_visits=2, inline_async=True):
        for ev in p.events:
            if pathq.is_poll(ev) and ev.extra != "inlined":
                polled.setdefault(ev.name, ev)
    for nm, ev in sorted(polled.items()):
        ok = "PollFn" in nm or "remove_file" in nm
        rep.check(ok, rule, "%s|%s|await|%s" % (key_prefix, b.path, short(nm) or nm[:30]),
                  "the accept task awaits only its select over accept()/stop%s - never the per-connection callback (awaited: %s)" % (
                      " and the unlink of the socket file" if "ipc" in b.path else "", nm[:80]), b.loc(ev.bb) if ev.fnpath == b.path else None)
    rep.floor(rule, "%s: futures polled by the accept task" % b.path.split("::")[2], len(polled), 1)
    spawned = 0
    inline = 0
    for p in pathq.paths(f, b, max_visits=2, inline_async=True):
        for i, ev in enumerate(p.events):
            if ev.kind == "call" and ev.extra != "inlined" and not pathq.is_poll(ev):
                # the callback is a captured Fn: calling it shows up as Fn::call on a captured field
                # (its type names the connection type it is handed - in the field's `impl Fn(..)` type or, for a named generic `F`, in
                # the argument tuple of the Fn trait it is called through)
                if short(ev.name) in ("call", "call_mut", "call_once") and ev.args and any(
                        isinstance(x, tuple) and x and x[0] == "field" and x[1] == ("arg", 1) and
                        (type_holds(f, str(x[3]), names.of(f, "FramedIo")) or any(type_holds(f, str(a), names.of(f, "FramedIo")) for a in ((ev.fn or {}).get("args") or [])))
                        for x in walk_expr(ev.args[0])):
                    fut = ev.result
                    later = [e2 for e2 in p.events[i + 1:] if e2.kind == "call" and short(e2.name) == "spawn" and e2.args and any(y == fut for y in walk_expr(e2.args[0]))]
                    polled = [e2 for e2 in p.events[i + 1:] if e2.kind == "call" and short(e2.name) in ("into_future", "poll") and e2.args and any(y == fut for y in walk_expr(e2.args[0]))]
                    if later and not polled:
                        spawned += 1
                    else:
                        inline += 1
    # the listener lives as long as the task: the task ends only through the stop arm - a failed accept() (EMFILE, a reset
    # connection) is passed on like any other outcome and the loop goes on
    nret = 0
    for p in pathq.paths(f, b, max_visits=2, inline_async=True):
        if p.end != "return":
            continue
        nret += 1
        feeds = arm_feeds(p, f)
        fired = [feeds.get(c[1]) for (e, c, _, _) in p.conds
                 if e[0] == "discr" and c[0] == "eq" and e[1][0] == "field" and e[1][1][0] == "downcast" and e[1][1][2] == "Ready" and
                 pathq.mentions_call(e[1], lambda y: short(y[1]) == "poll" and "PollFn" in y[1]) is not None]
        rep.check(bool(fired) and fired[-1] == "stop", rule, "%s|%s|ends-only-on-stop" % (key_prefix, b.path),
                  "the accept task returns only after the stop arm fired (last select arm on this returning path: %s): an accept() error never ends the listener" % (fired[-1] if fired else None), b.loc())
    rep.floor(rule, "%s: returning paths of the accept task" % b.path.split("::")[2], nret, 1)
    rep.check(spawned > 0 and inline == 0, rule, "%s|%s|callback-spawned" % (key_prefix, b.path),
              "the future returned by the connection callback is passed to spawn and never polled by the accept task (spawned on %d path events, awaited inline on %d)" % (spawned, inline), b.loc())
    return aw
