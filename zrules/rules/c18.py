"""C18 - bind/unbind bookkeeping (structural clauses).

Decides: (R18.1) Socket::bind inserts into the bind table and emits Listening only on paths that decided
begin_accept Ok; the inserted key, the returned endpoint and the Listening endpoint are the endpoint begin_accept
resolved; error exits touch neither the table nor anything else; (R18.2) TCP begin_accept takes the port of the
returned endpoint from listener.local_addr() (never the requested port) and replaces an IP host by the resolved
IP; (R18.3) unbind removes exactly the given endpoint from the table; a miss returns NoSuchBind(endpoint) with
no other effect; a hit awaits shutdown() of exactly the removed handle and does nothing else (in particular it
never touches the backend / peers); (R18.4) every begin_accept creates its own stop channel and its own spawned
task, builds the returned handle from exactly those, and a failed bind has no side effect (the socket file is
unlinked only by the accept task on its exit, never on an error path of bind); the accept loop keeps accepting
(never awaits the callback: shared rule with C20). Does NOT decide what the OS accepts or refuses."""
from ..sym import show, walk_expr
from ..common import short, strip_view
from .. import pathq
from . import acc, hs

EXPLANATION = __doc__
PER_CONFIG = True
NOT_DECIDED = "OS-level accept/refuse behaviour, actual port numbers"
ASSUMPTIONS = ["std HashMap::insert/remove semantics", "TcpListener::local_addr returns the bound address"]
RULES = {
    "R18.1": "bind: table insert and Listening only after begin_accept Ok, with the resolved endpoint; Err exits effect-free",
    "R18.2": "TCP: returned port from local_addr(); IP hosts replaced by the resolved IP",
    "R18.3": "unbind: remove(&endpoint); miss -> NoSuchBind, no effect; hit -> await shutdown of that handle, nothing else",
    "R18.4": "own stop channel + own task per bind; failed bind effect-free; unlink only in the accept task",
}


def is_accept_poll(f, x):
    """x is the awaited result of the listener set-up (the transport dispatcher or a per-transport function), found by signature"""
    return any(hs.is_poll_of_role(f, x, r) for r in ("accept_dispatch", "accept_tcp", "accept_ipc"))


def co(f, suffix):
    xs = [b for b in f.bodies if b.path.endswith(suffix) and b.j.get("coroutine_kind")]
    return xs[0] if xs else None


def run(ctx, f, rep):
    b = co(f, "Socket::bind::{closure#0}")
    if b is None:
        rep.bad("R18.1", "R18.1|anchor", "Socket::bind not found (anchor-missing)")
    else:
        nok = nerr = 0
        for p in pathq.paths(f, b):
            if p.end != "return":
                continue
            ins = [(i, ev) for i, ev in pathq.calls(p, "insert") if "HashMap" in ev.name and pathq.mentions_call(ev.args[0], lambda y: short(y[1]) == "binds") is not None]
            lst = [(i, ev) for i, ev in pathq.calls(p, "try_send") if len(ev.args) > 1 and ev.args[1][0] == "agg" and ev.args[1][3] == "Listening"]
            rk = pathq.ret_kind(p)
            accepted = pathq.ok_decided(p, lambda x: is_accept_poll(f, x))
            if rk == "Ok":
                nok += 1
                resolved = pathq.mentions_call(p.ret, lambda y: is_accept_poll(f, y))
                okk = len(ins) == 1 and accepted and resolved is not None
                same = False
                if okk:
                    k = ins[0][1].args[1]
                    kr = pathq.mentions_call(k, lambda y: is_accept_poll(f, y))
                    h = ins[0][1].args[2]
                    hr = pathq.mentions_call(h, lambda y: is_accept_poll(f, y))
                    # key = clone(.0 of the result), handle = .1 of the same result, returned = .0
                    same = kr == resolved and hr == resolved
                # a bind must not displace (and thereby silently stop) a listener already recorded under the same endpoint - a host name
                # can resolve to a second address and to the very same endpoint: the insert happens only after the table was found
                # not to contain that key, or its returned old value is looked at
                if len(ins) == 1:
                    ii, iev = ins[0]
                    absent = any(e[0] in ("call", "pure") and short(e[1]) == "contains_key" and "HashMap" in e[1] and pathq.truth(c) is False and
                                 len(e[2]) > 1 and strip_view(e[2][1]) == strip_view(iev.args[1]) for (e, c, _, _) in p.conds[:iev.ncond])
                    looked = any(e[0] == "discr" and any(y == iev.result for y in walk_expr(e[1])) for (e, c, _, _) in p.conds[iev.ncond:])
                    rep.check(absent or looked, "R18.1", "R18.1|no-silent-displacement",
                              "bind records the endpoint only after finding it absent from the bind table (%s), or looks at what insert displaced (%s): "
                              "an existing listener under the same endpoint is never dropped silently" % (absent, looked), b.loc(iev.bb))
                rep.check(okk and same, "R18.1", "R18.1|insert-resolved-endpoint",
                          "a successful bind adds exactly the endpoint begin_accept resolved (with its stop handle) and returns that endpoint (inserts=%d, begin_accept Ok=%s, same result=%s)" % (len(ins), accepted, same), b.loc())
                for i, ev in lst:
                    a = ev.args[1]
                    rep.check(pathq.mentions_call(a, lambda y: is_accept_poll(f, y)) is not None and accepted, "R18.1", "R18.1|listening-event",
                              "Listening carries the resolved endpoint and is emitted only after begin_accept succeeded", b.loc(ev.bb))
            elif rk == "Err":
                nerr += 1
                rep.check(not ins and not lst, "R18.1", "R18.1|failed-bind-changes-nothing", "a failed bind neither changes the bind table nor reports Listening (inserts=%d, events=%d)" % (len(ins), len(lst)), b.loc())
        rep.floor("R18.1", "Ok exits of bind", nok, 1)
        rep.floor("R18.1", "Err exits of bind", nerr, 2)
    # ---- R18.2
    t = hs.co(f, "accept_tcp")
    if t is None:
        rep.bad("R18.2", "R18.2|anchor", "tcp::begin_accept not found (anchor-missing)")
    else:
        n = 0
        for p in pathq.paths(f, t):
            if p.end != "return" or pathq.ret_kind(p) != "Ok":
                continue
            n += 1
            r = p.ret[4][0]
            ep = r[4][0] if r[0] == "agg" and r[4] else None
            okp = False
            okh = None
            if ep is not None and ep[0] == "agg" and ep[3] == "Tcp":
                host, port = ep[4][0], ep[4][1]
                okp = pathq.mentions_call(port, lambda y: short(y[1]) == "port") is not None and pathq.mentions_call(port, lambda y: short(y[1]) == "local_addr") is not None
                host_ip = any(e[0] == "discr" and c[0] == "eq" and c[1] in (0, 1) and "Host" in str(e[2] if len(e) > 2 else "") for (e, c, _, _) in p.conds)
                from_local = pathq.mentions_call(host, lambda y: short(y[1]) == "local_addr") is not None
                okh = from_local if host_ip else True
            rep.check(okp, "R18.2", "R18.2|port-from-local-addr", "the returned port is listener.local_addr().port(): %s" % (show(ep[4][1])[:70] if ep and ep[0] == "agg" else None), t.loc())
            rep.check(bool(okh), "R18.2", "R18.2|host-resolved", "an IP host in the returned endpoint is the resolved IP of the listener", t.loc())
        rep.floor("R18.2", "Ok exits of tcp::begin_accept", n, 1)
    # ---- R18.3
    u = co(f, "Socket::unbind::{closure#0}")
    if u is None:
        rep.bad("R18.3", "R18.3|anchor", "Socket::unbind not found (anchor-missing)")
    else:
        seen = {"hit": 0, "miss": 0}
        # (a crate-private wrapper around the handle's shutdown is looked through; TaskHandle::shutdown itself stays a call)
        th_shutdown = {p_ for p_ in f.fns if p_.endswith("::shutdown") and "TaskHandle" in p_}
        for p in pathq.paths_keeping(f, u, th_shutdown):
            if p.end != "return":
                continue
            rm = [(i, ev) for i, ev in pathq.calls(p, "remove") if "HashMap" in ev.name]
            if len(rm) != 1:
                rep.bad("R18.3", "R18.3|remove-once", "unbind removes from the bind table %d times on a path" % len(rm), u.loc())
                continue
            i, ev = rm[0]
            key_ok = any(isinstance(x, tuple) and x and x[0] == "field" and x[1] == ("arg", 1) and x[2] in (1, "1") for x in walk_expr(ev.args[1]))
            rep.check(key_ok, "R18.3", "R18.3|remove-given-endpoint", "unbind removes exactly the endpoint it was given", u.loc(ev.bb))
            others = [short(e2.name) for j, e2 in pathq.calls(p) if short(e2.name) in ("shutdown", "clear_sync", "clear", "insert", "peer_disconnected", "drain", "retain", "is_empty", "backend") and
                      not ("TaskHandle" in e2.name)]
            sd = [(j, e2) for j, e2 in pathq.calls(p, "shutdown") if "TaskHandle" in e2.name]
            # the removed entry was None: `match`, `if let`, `ok_or(..)?`, `ok_or_else(..)?` all decide the Option that remove returned
            miss = pathq.option_decided(p, lambda y: y == ev.result) == 0
            if miss:
                seen["miss"] += 1
                nsb = p.ret is not None and "NoSuchBind" in show(p.ret)
                rep.check(nsb and not sd and not others, "R18.3", "R18.3|miss-no-such-bind", "unbind of an endpoint that is not bound returns NoSuchBind and does nothing else (other effects: %s)" % others, u.loc())
            else:
                seen["hit"] += 1
                h = sd[0][1].args[0] if sd else None
                same = h is not None and any(y == ev.result for y in walk_expr(h))
                rep.check(len(sd) == 1 and same and not others, "R18.3", "R18.3|hit-stops-that-listener",
                          "unbind of a bound endpoint shuts down exactly the removed handle (%s) and touches nothing else - established connections and other binds stay (other effects: %s)" % (same, others), u.loc())
                awaited = p.ret is not None and pathq.mentions_call(p.ret, lambda y: pathq.is_poll_of(y, "shutdown")) is not None
                rep.check(awaited, "R18.3", "R18.3|hit-awaits-stop", "unbind returns only after the accept task has been joined", u.loc())
        rep.floor("R18.3", "unbind hit and miss exits", len([k for k, v in seen.items() if v]), 2)
    # ---- R18.4
    for role, label in (("accept_tcp", "tcp"), ("accept_ipc", "ipc")):
        g = hs.co(f, role)
        if g is None:
            rep.bad("R18.4", "R18.4|%s|anchor" % label, "%s::begin_accept not found (anchor-missing)" % label)
            continue
        n = 0
        for p in pathq.paths(f, g):
            if p.end != "return":
                continue
            ch = [ev for i, ev in pathq.calls(p, "channel") if "oneshot" in ev.name]
            sp = [ev for i, ev in pathq.calls(p, "spawn")]
            rk = pathq.ret_kind(p)
            rmf = [ev for i, ev in pathq.calls(p, "remove_file", "remove_dir_all", "remove_dir")]
            rep.check(not rmf, "R18.4", "R18.4|%s|no-unlink-in-bind" % label, "%s bind path never unlinks a file itself (a failed bind must not remove a live listener's socket file): %s" % (label, [short(e.name) for e in rmf]), g.loc())
            if rk == "Ok":
                n += 1
                handle = pathq.mentions_call(p.ret, lambda y: short(y[1]) == "new" and "TaskHandle" in y[1])
                if handle is None:
                    for x in walk_expr(p.ret):
                        if isinstance(x, tuple) and x and x[0] == "agg" and "TaskHandle" in str(x[2]):
                            handle = x
                            break
                own = len(ch) == 1 and len(sp) == 1 and handle is not None and any(y == ch[0].result for y in walk_expr(handle)) and any(y == sp[0].result for y in walk_expr(handle))
                rep.check(own, "R18.4", "R18.4|%s|own-channel-and-task" % label, "each %s bind creates its own stop channel (%d) and task (%d) and returns a handle made of exactly those" % (label, len(ch), len(sp)), g.loc())
            elif rk == "Err":
                rep.check(not sp, "R18.4", "R18.4|%s|failed-bind-spawns-nothing" % label, "a failed %s bind spawns no task" % label, g.loc())
        rep.floor("R18.4", "%s: Ok exits of begin_accept" % label, n, 1)
    for b2 in acc.accept_tasks(f):
        acc.check_accept_loop(f, rep, "R18.4", b2, "R18.4")
