"""C11 - PUB/XPUB prefix filtering (structural clauses).

Decides: (R11.1) subscription handler table on every path of the PUB and XPUB handlers: the per-subscriber
list is mutated only for a single-frame, non-empty Message whose first byte is 1 (exactly one push of data[1..])
or 0 (position(== data[1..]) over the same list, exactly one remove at that index, nothing when absent); no
bulk mutation (retain/clear/drain/...); any other first byte mutates nothing; (R11.2) the PUB and XPUB handlers,
and the PUB and XPUB send bodies, have the same set of effect sequences - list mutations, sends, disconnects and
exit kind per path, decisions and read-only calls left out (sibling cross-check); (R11.3) a
message is handed to a subscriber only under the normal form of the prefix test: len(sub) <= len(first frame)
and sub == first[0..len(sub)] (or first.starts_with(sub)); (R11.4) at most one try_send per subscriber per
publish (the scan of that subscriber's list ends at the first match); (R11.5) XPUB recv gives a clone of every
message to the handler and returns the original; PUB feeds its handler from one spawned reader per peer; (R11.6)
subscriptions are per connection: registering a (re)connecting peer replaces whatever entry its identity had (C04 R04.4
re-evaluated for the PUB and XPUB backends) and the new entry starts with an empty subscription list.
Does NOT decide multiset semantics over arbitrary histories."""
import re
from ..sym import show, walk_expr
from ..facts import callee_name
from ..common import short, trait_impls, coroutine_of, emptiness
from .. import pathq
from . import names
from .c07 import socket_coroutine, is_param_msg

EXPLANATION = __doc__
NOT_DECIDED = "agreement with a reference multiset-prefix model over arbitrary subscribe/unsubscribe histories"
ASSUMPTIONS = ["Vec::push/remove/position semantics", "scc entry guards give exclusive access to one subscriber"]
RULES = {
    "R11.1": "handler table: single-frame, non-empty, byte 1 -> one push(data[1..]); byte 0 -> one remove(position(==data[1..])); else nothing",
    "R11.2": "PUB handler and XPUB handler, PUB send and XPUB send have the same set of effect sequences (list mutations, sends, disconnects, exit kind)",
    "R11.3": "delivery only under len(sub) <= len(first) && sub == first[..len(sub)] (or starts_with)",
    "R11.4": "at most one try_send per subscriber per publish",
    "R11.5": "XPUB recv: handler gets a clone, caller the original; PUB: one spawned reader per peer feeding the handler",
    "R11.6": "subscriptions are per connection: registration replaces an existing entry (C04 R04.4) and starts with an empty list",
    "R11.F": "foundation clauses re-evaluated as necessary conditions: " + ", ".join(['decoder', 'identity', 'wakeup', 'trysend', 'pubreader']),
}

LIST_MUT = {"push", "remove", "retain", "clear", "drain", "truncate", "dedup", "pop", "swap_remove", "insert", "extend", "append", "resize", "retain_mut", "dedup_by", "dedup_by_key", "split_off"}


def handlers(f):
    out = []
    for b in f.bodies:
        if b.kind != "AssocFn" or b.j.get("impl_trait"):
            continue
        sig = f.fns.get(b.path)
        if not sig:
            continue
        if any("codec::Message" in t for t in sig["inputs"]) and any("PeerIdentity" in t for t in sig["inputs"]):
            muts = [fn for k in pathq.scope(f, b) for bb, t, fn in k.calls() if fn and fn["name"] in LIST_MUT and "Vec" in fn["path"]]
            if muts:
                out.append(b)
    return out


def list_mutations(p):
    return [(i, ev) for i, ev in enumerate(p.events) if ev.kind == "call" and ev.extra != "inlined" and short(ev.name) in LIST_MUT and "Vec" in ev.name
            and any(isinstance(x, tuple) and x and x[0] == "field" and "Vec<std::vec::Vec<u8>>" in str(x[3]) for x in walk_expr(ev.args[0]))]


def first_byte_decision(p, upto):
    """value the path decided for data.first() / data[0]"""
    for (e, c, _, _) in p.conds[:upto]:
        if c[0] == "eq" and pathq.mentions_call(e, lambda x: short(x[1]) == "first") is not None and e[0] == "deref":
            return c[1]
        if c[0] == "eq" and e[0] in ("index", "cindex") and (e[2] == ("int", 0) or e[2] == 0):
            return c[1]
        # `data.split_first()`: the first element of the Some payload is the first byte
        if c[0] == "eq" and e[0] == "deref" and split_first_part(e[1]) == 0:
            return c[1]
    return None


def split_first_part(x):
    """0 / 1 if x is the first / second element of the `Some((first, rest))` that `data.split_first()` returned, else None"""
    while isinstance(x, tuple) and x and x[0] in ("ref", "deref", "cast"):
        x = x[1]
    if isinstance(x, tuple) and x and x[0] == "field" and x[2] in (0, 1, "0", "1"):
        y = x[1]
        if y[0] == "field" and y[2] in (0, "0") and y[1][0] == "downcast" and y[1][2] == "Some":
            z = y[1][1]
            while isinstance(z, tuple) and z and z[0] in ("ref", "deref"):
                z = z[1]
            if z[0] in ("call", "pure") and short(z[1]) == "split_first":
                return int(x[2])
    return None


def check_handler(f, rep, b):
    nm = {"push": 0, "remove": 0}
    for p in pathq.paths(f, b):
        if p.end != "return":
            continue
        muts = list_mutations(p)
        if not muts:
            continue
        rep.check(len(muts) == 1, "R11.1", "R11.1|%s|one-mutation" % b.path, "one subscription message changes the list at most once (%s)" % [short(m.name) for _, m in muts], b.loc())
        i, ev = muts[0]
        kind = short(ev.name)
        conds = p.conds[:ev.ncond]
        single = any(e[0] == "binop" and e[1] in ("Ne", "Eq") and e[3] == ("int", 1) and e[2][0] in ("pure", "call") and short(e[2][1]) == "len" and "ZmqMessage" in e[2][1] and
                     ((e[1] == "Ne" and pathq.truth(c) is False) or (e[1] == "Eq" and pathq.truth(c) is True)) for (e, c, _, _) in conds)
        msg_arm = any(e[0] == "discr" and e[1] == ("arg", 3) and c == ("eq", 2) for (e, c, _, _) in conds)
        nonempty = any(emptiness(e, c) is not None and emptiness(e, c)[1] is False for (e, c, _, _) in conds)
        fb = first_byte_decision(p, ev.ncond)
        if kind not in ("push", "remove"):
            rep.bad("R11.1", "R11.1|%s|bulk-mutation" % b.path, "the subscription list is changed with %s: subscriptions are counted, each message adds or cancels exactly one" % kind, b.loc(ev.bb))
            continue
        nm[kind] += 1
        rep.check(msg_arm and single, "R11.1", "R11.1|%s|single-frame-only" % b.path, "only single-frame Message items change subscriptions (message arm %s, len == 1 %s)" % (msg_arm, single), b.loc(ev.bb))
        rep.check(nonempty, "R11.1", "R11.1|%s|non-empty-only" % b.path, "an empty frame changes nothing", b.loc(ev.bb))
        want = 1 if kind == "push" else 0
        rep.check(fb == want, "R11.1", "R11.1|%s|first-byte|%s" % (b.path, kind), "%s happens only for first byte %d (path decided %s)" % (kind, want, fb), b.loc(ev.bb))
        # payload = data[1..]
        def tail_of(e):
            for x in walk_expr(e):
                if isinstance(x, tuple) and x and x[0] in ("call", "pure") and short(x[1]) == "index" and len(x[2]) > 1:
                    r = x[2][1]
                    if r[0] == "agg" and (r[2] or "").endswith("RangeFrom") and r[4] == (("int", 1),):
                        return True
                if split_first_part(x) == 1:        # the `rest` of `data.split_first()`
                    return True
            return False
        if kind == "push":
            rep.check(tail_of(ev.args[1]), "R11.1", "R11.1|%s|push-topic" % b.path, "the pushed subscription is data[1..]: %s" % show(ev.args[1])[:70], b.loc(ev.bb))
        else:
            idx = ev.args[1]
            pos = pathq.mentions_call(idx, lambda x: short(x[1]) == "position")
            from ..oblig import canon_text, view_key
            same_list = False
            if pos is not None:
                it = pathq.mentions_call(pos, lambda x: short(x[1]) in ("iter", "iter_mut"))
                same_list = it is not None and canon_text(view_key(it[2][0])[0]) == canon_text(view_key(ev.args[0])[0])
            some = pos is not None and any(e[0] == "discr" and e[1] == pos and c == ("eq", 1) for (e, c, _, _) in conds)
            # the closure compares with the topic data[1..]
            cmp_eq = False
            clo = pos[2][1] if pos is not None and len(pos[2]) == 2 else None
            if clo is not None and clo[0] == "agg" and clo[1] == "closure" and f.body(clo[2]) is not None:
                rets = [cp.ret for cp in pathq.paths(f, f.body(clo[2])) if cp.end == "return"]
                # |s| s == &topic : equality of the item (argument 2) with a captured value (through argument 1)
                cmp_eq = bool(rets) and all(r[0] in ("call", "pure") and short(r[1]) == "eq" and any(y == ("arg", 2) for y in walk_expr(r)) and
                                            any(y == ("arg", 1) for y in walk_expr(r)) for r in rets)
            rep.check(pos is not None and same_list and some and cmp_eq, "R11.1", "R11.1|%s|remove-one-equal" % b.path,
                      "unsubscribe removes exactly the entry at position(== topic) of the same list, only when found (position %s, same list %s, Some arm %s, equality closure %s)" % (pos is not None, same_list, some, cmp_eq), b.loc(ev.bb))
    rep.floor("R11.1", "%s: subscribe paths" % b.path, nm["push"], 1)
    rep.floor("R11.1", "%s: unsubscribe paths" % b.path, nm["remove"], 1)


def norm_sig(txt):
    txt = re.sub(r"#\d+", "", txt)
    txt = re.sub(r"\('havoc', \d+, '_\d+'", "('havoc'", txt)
    txt = txt.replace("r#pub::PubSocketBackend", "BACKEND").replace("xpub::XPubSocketBackend", "BACKEND")
    txt = txt.replace("r#pub::Subscriber", "SUBSCRIBER").replace("xpub::XPubSubscriber", "SUBSCRIBER")
    txt = txt.replace("r#pub::PubSocket", "SOCKET").replace("xpub::XPubSocket", "SOCKET")
    txt = re.sub(r"\('resume', \d+\)", "RESUME", txt)
    return txt


EFFECTS = LIST_MUT | {"try_send", "send", "start_send", "peer_disconnected", "remove_sync", "remove_async", "remove_entry",
                      "insert_sync", "insert_async", "upsert_sync", "upsert_async", "message_received", "spawn"}


def path_signature(p):
    """What a path *does*: the sequence of state-changing / sending calls and how it ends. Decisions and read-only calls are
    left out on purpose: two siblings may test the same thing through different but equivalent expressions."""
    ev = []
    for e in p.events:
        if e.kind == "call" and e.extra != "inlined" and not pathq.is_poll(e):
            n = short(e.name)
            if n in LIST_MUT:
                # only mutations of a subscription list (a Vec<Vec<u8>> field), not of a local frame vector
                if e.args and any(isinstance(x, tuple) and x and x[0] == "field" and "Vec<std::vec::Vec<u8>>" in str(x[3]) for x in walk_expr(e.args[0])):
                    ev.append(n)
            elif n in EFFECTS:
                ev.append(n)
    return (tuple(ev), pathq.ret_kind(p) if p.end == "return" else p.end)


def check_siblings(f, rep, a, b, what, **kw):
    sa = {path_signature(p) for p in pathq.paths(f, a, **kw) if p.end in ("return",)}
    sb = {path_signature(p) for p in pathq.paths(f, b, **kw) if p.end in ("return",)}
    only_a = sa - sb
    only_b = sb - sa
    ok = not only_a and not only_b
    detail = None
    if not ok:
        ex = sorted(only_a or only_b, key=lambda s: len(str(s)))[0]
        detail = "an effect sequence of the %s only: %s -> %s" % ("first" if only_a else "second", list(ex[0]), ex[1])
    rep.check(ok, "R11.2", "R11.2|%s" % what, "%s: %s and %s have the same set of effect sequences (%d/%d; only in first: %d, only in second: %d)" % (
        what, a.path.split("::")[-3] if "::" in a.path else a.path, b.path.split("::")[-3] if "::" in b.path else b.path, len(sa), len(sb), len(only_a), len(only_b)), a.loc(), detail)


def mentions(e, pred):
    return any(pred(y) for y in walk_expr(e))


def prefix_test(conds, is_sub):
    """(le, eq, sw): do these decisions contain the normal form of `sub is a byte-prefix of the first frame`?
    le: len(sub) <= len(first);  eq: sub == first[0..len(sub)] / first[..len(sub)];  sw: first.starts_with(sub).
    `is_sub` recognises the expression the subscription under test comes from."""
    le_ok = eq_ok = sw_ok = False
    first_src = lambda y: isinstance(y, tuple) and y and y[0] in ("call", "pure") and short(y[1]) == "get" and "ZmqMessage" in y[1]
    for (e, c, _, _) in conds:
        t = pathq.truth(c)
        if e[0] == "binop" and e[1] in ("Le", "Ge", "Gt", "Lt"):
            a, b2 = e[2], e[3]
            def is_sub_len(x):
                return x[0] in ("pure", "call") and short(x[1]) == "len" and mentions(x, is_sub)
            def is_first_len(x):
                return x[0] in ("pure", "call") and short(x[1]) == "len" and mentions(x, first_src) and not mentions(x, is_sub)
            if is_sub_len(a) and is_first_len(b2):
                le_ok = le_ok or (e[1] == "Le" and t is True) or (e[1] == "Gt" and t is False)
            if is_first_len(a) and is_sub_len(b2):
                le_ok = le_ok or (e[1] == "Ge" and t is True) or (e[1] == "Lt" and t is False)
        if e[0] in ("pure", "call") and short(e[1]) in ("eq", "ne") and len(e[2]) == 2:
            want = t is True if short(e[1]) == "eq" else t is False
            sides = e[2]
            def full_range(r):
                while isinstance(r, tuple) and r and r[0] == "ref":
                    r = r[1]
                return (r[0] == "agg" and (r[2] or "").endswith("RangeFull")) or (r[0] == "const" and "RangeFull" in str(r[1]))
            def partial_index(y):
                return short(y[1]) == "index" and len(y[2]) > 1 and not full_range(y[2][1])
            # the subscription side is the whole subscription (`sub`, `sub.as_slice()`, `sub[..]`); the message side is a proper slice
            sub_side = [s for s in sides if mentions(s, is_sub) and pathq.mentions_call(s, partial_index) is None]
            msg_side = [s for s in sides if pathq.mentions_call(s, partial_index) is not None]
            if want and sub_side and msg_side:
                ix = pathq.mentions_call(msg_side[0], partial_index)
                r = ix[2][1]
                sliced_first = mentions(ix[2][0], first_src)
                def sub_len(x):
                    return x[0] in ("pure", "call") and short(x[1]) == "len" and mentions(x, is_sub)
                rng = r[0] == "agg" and (((r[2] or "").endswith("Range") and r[4][0] == ("int", 0) and sub_len(r[4][1])) or
                                          ((r[2] or "").endswith("RangeTo") and sub_len(r[4][0])))
                eq_ok = eq_ok or (sliced_first and rng)
        if e[0] in ("pure", "call") and short(e[1]) == "starts_with" and t is True and len(e[2]) == 2:
            sw_ok = sw_ok or (mentions(e[2][0], first_src) and not mentions(e[2][0], is_sub) and mentions(e[2][1], is_sub))
    return le_ok, eq_ok, sw_ok


def any_closure_test(f, e):
    """e = subs.iter().any(closure): the closure answers true only under the prefix test of its argument"""
    it = e[2][0]
    while it[0] == "ref":
        it = it[1]
    clo = e[2][1]
    plain_iter = it[0] in ("call", "pure") and short(it[1]) == "iter" and any(
        isinstance(x, tuple) and x and x[0] == "field" and "Vec<std::vec::Vec<u8>>" in str(x[3]) for x in walk_expr(it))
    if not plain_iter or not (clo[0] == "agg" and clo[1] == "closure") or f.body(clo[2]) is None:
        return False, False, False
    res = []
    for cp in pathq.paths(f, f.body(clo[2])):
        if cp.end != "return":
            continue
        if cp.ret == ("int", 0):
            continue
        conds = list(cp.conds)
        if cp.ret != ("int", 1):
            conds.append((cp.ret, ("eq", 1), None, None))
        res.append(prefix_test(conds, lambda y: y == ("arg", 2)))
    if not res:
        return False, False, False
    return all(r[0] for r in res), all(r[1] for r in res), all(r[2] for r in res)


def check_send(f, rep, co, label):
    nd = 0
    for p in pathq.paths(f, co, max_visits=2):
        ts = [(i, ev) for i, ev in pathq.calls(p, "try_send") if "TrySend" in ev.name]
        its = [(i, ev) for i, ev in pathq.calls(p, "next_async", "begin_async")]
        for i, ev in ts:
            nd += 1
            conds = p.conds[:ev.ncond]
            # conditions since this subscriber's scan began (last entry-iterator step before the send)
            starts = [k for k, e2 in its if k < i]
            base = p.events[starts[-1]].ncond if starts else 0
            scan = p.conds[base:ev.ncond]
            le_ok, eq_ok, sw_ok = prefix_test(scan, lambda y: isinstance(y, tuple) and y and y[0] in ("call", "pure") and short(y[1]) == "next" and "slice::Iter" in y[1])
            if not ((le_ok and eq_ok) or sw_ok):
                # the scan written as subs.iter().any(|sub| test(sub)): delivery under any(..) == true, the test read in the closure
                for (e, c, _, _) in scan:
                    if pathq.truth(c) is True and e[0] in ("call", "pure") and short(e[1]) == "any" and len(e[2]) == 2:
                        le_ok, eq_ok, sw_ok = any_closure_test(f, e)
            rep.check((le_ok and eq_ok) or sw_ok, "R11.3", "R11.3|%s|prefix-test" % label,
                      "%s delivers only when a subscription is a byte-prefix of the first frame: len(sub)<=len(first) %s, sub == first[0..len(sub)] %s, or starts_with %s" % (label, le_ok, eq_ok, sw_ok), co.loc(ev.bb))
            item = ev.args[1]
            rep.check(item[0] == "agg" and item[3] == "Message" and pathq.mentions_call(item, lambda y: short(y[1]) == "clone") is not None and is_param_msg(item), "R11.3",
                      "R11.3|%s|delivers-clone-of-message" % label, "%s hands each subscriber a clone of the caller's message" % label, co.loc(ev.bb))
        # R11.4: between a try_send and the next entry-iterator step no further scan of this subscriber's list
        for n, (i, ev) in enumerate(ts):
            nxt = [k for k, e2 in its if k > i]
            end = nxt[0] if nxt else len(p.events)
            more_scan = [e2 for e2 in p.events[i + 1:end] if e2.kind == "call" and short(e2.name) == "next" and "slice::Iter" in e2.name]
            more_send = [e2 for e2 in p.events[i + 1:end] if e2.kind == "call" and short(e2.name) == "try_send" and "TrySend" in e2.name]
            rep.check(not more_scan and not more_send, "R11.4", "R11.4|%s|at-most-once" % label,
                      "%s: after a delivery the scan of that subscriber's subscriptions stops (further scans %d, further sends %d)" % (label, len(more_scan), len(more_send)), co.loc(ev.bb))
    rep.floor("R11.3", "%s: delivery events on paths" % label, nd, 1)


DEPENDS = ['decoder', 'identity', 'wakeup', 'trysend', 'pubreader']     # foundation groups re-evaluated as necessary conditions (rules/found.py)


def run(ctx, f, rep):
    from . import found
    found.import_groups(ctx, f, rep, 'C11', DEPENDS)
    hs = handlers(f)
    rep.floor("R11.1", "subscription handlers (PUB, XPUB)", len(hs), 2)
    for b in hs:
        check_handler(f, rep, b)
    if len(hs) == 2:
        check_siblings(f, rep, hs[0], hs[1], "subscription-handlers")
    pub = socket_coroutine(f, "SocketSend", "send", "r#pub::PubSocket")
    xpub = socket_coroutine(f, "SocketSend", "send", "xpub::XPubSocket")
    rep.check(pub is not None and xpub is not None, "R11.3", "R11.3|send-anchors", "PUB and XPUB send bodies found")
    if pub is not None and xpub is not None:
        check_send(f, rep, pub, "PUB send")
        check_send(f, rep, xpub, "XPUB send")
        check_siblings(f, rep, pub, xpub, "publish-loops", max_visits=1, cut_at_yield=True)
    # R11.6 subscriptions are per *connection*: a (re)connecting peer replaces whatever entry its identity had (C04 R04.4,
    # re-evaluated for the two publisher backends) and starts with an empty subscription list
    from . import c04
    from ..report import Report
    sub = Report("C11", rep.config)
    c04.check_registration(f, sub)
    n6 = 0
    for o in sub.obls:
        if (names.of(f, "PubSocketBackend") in o.key or names.of(f, "XPubSocketBackend") in o.key) and o.rule == "R04.4":
            n6 += 1
            (rep.ok if o.ok else rep.bad)("R11.6", o.key.replace("R04.4", "R11.6", 1), o.what, o.loc, o.detail)
    rep.floor("R11.6", "registration obligations of the PUB and XPUB backends", n6, 4)
    for ty, outer in sorted(trait_impls(f, "MultiPeerBackend", "peer_connected").items()):
        if ty.split("::")[-1] not in (names.of(f, "PubSocketBackend"), names.of(f, "XPubSocketBackend")):
            continue
        co = coroutine_of(f, outer)
        fresh = 0
        for p in pathq.paths(f, co):
            if p.end != "return":
                continue
            for i, e in pathq.calls(p, "upsert_async", "upsert_sync", "insert_async", "insert_sync", "insert_entry"):
                if "scc::" not in e.name:
                    continue
                val = next((a for a in e.args[1:] if a[0] == "agg" and a[1] == "adt" and a[2] in f.adts), None)
                if val is None:
                    continue
                flds = f.adts[val[2]]["variants"][0]["fields"]
                idx = next((k for k, fl in enumerate(flds) if "Vec<std::vec::Vec<u8>>" in fl["ty"]), None)
                if idx is None or idx >= len(val[4]):
                    continue
                fresh += 1
                v = val[4][idx]
                empty = v[0] in ("call", "pure") and (short(v[1]) in ("new", "default") and not v[2]) and "Vec" in v[1]
                rep.check(empty, "R11.6", "R11.6|%s|fresh-entry-has-no-subscriptions" % ty, "%s: a newly registered subscriber starts with an empty subscription list (%s)" % (ty, show(v)[:50]), co.loc(e.bb))
        rep.floor("R11.6", "%s: registrations with a subscriber record" % ty, fresh, 1)
    # R11.5 (the subscription handlers are the functions found by signature above, whatever they are called)
    hpaths = {b.path for b in hs}
    co = socket_coroutine(f, "SocketRecv", "recv", "XPubSocket")
    if co is None:
        rep.bad("R11.5", "R11.5|xpub-recv-anchor", "XPubSocket::recv not found (anchor-missing)")
    else:
        n = 0
        for p in pathq.paths(f, co):
            if p.end != "return" or pathq.ret_kind(p) != "Ok":
                continue
            n += 1
            calls = [ev for i, ev in pathq.calls(p) if ev.name in hpaths]
            ok = False
            if len(calls) == 1:
                a = calls[0].args[2] if len(calls[0].args) > 2 else None
                cl = a is not None and a[0] == "agg" and a[3] == "Message" and pathq.mentions_call(a, lambda y: short(y[1]) == "clone") is not None
                item_h = pathq.mentions_call(a, lambda y: short(y[1]) in ("poll", "poll_next") and not y[1].endswith("}")) if a is not None else None
                item_r = pathq.mentions_call(p.ret, lambda y: short(y[1]) in ("poll", "poll_next") and not y[1].endswith("}"))
                orig = p.ret[4][0] if p.ret[0] == "agg" and p.ret[4] else None
                untouched = orig is not None and pathq.mentions_call(orig, lambda y: short(y[1]) == "clone") is None and not any(isinstance(x, tuple) and x and x[0] == "havoc" for x in walk_expr(orig))
                ok = cl and item_h is not None and item_h == item_r and untouched
            rep.check(ok, "R11.5", "R11.5|xpub-recv-hands-to-handler", "XPUB recv gives a clone of the received message to the subscription handler exactly once and returns the original untouched (handler calls %d)" % len(calls), co.loc())
        rep.floor("R11.5", "Ok exits of XPUB recv", n, 1)
    # PUB: one spawned reader per peer feeding the handler
    for ty, outer in trait_impls(f, "MultiPeerBackend", "peer_connected").items():
        if ty.split("::")[-1] != names.of(f, "PubSocketBackend"):
            continue
        co = coroutine_of(f, outer)
        spawned = 0
        for p in pathq.paths(f, co):
            if p.end != "return":
                continue
            sp = [ev for i, ev in pathq.calls(p, "spawn")]
            tab = [e for i, e in pathq.calls(p, "upsert_async", "upsert_sync", "insert_async") if "scc::" in e.name]
            if tab:
                spawned += 1
                rep.check(len(sp) == 1, "R11.5", "R11.5|pub-one-reader-per-peer", "PUB spawns exactly one subscription reader per registered peer (spawns=%d)" % len(sp), co.loc())
        rep.floor("R11.5", "PUB registering paths", spawned, 1)
        reader = [k for k in f.children(co) if k.j.get("coroutine_kind")]
        feeds = any(any(fn and callee_name(fn) in hpaths for bb, t, fn in k2.calls()) for k in f.children(co) for k2 in pathq.scope(f, k))
        rep.check(feeds, "R11.5", "R11.5|pub-reader-feeds-handler", "the PUB reader task hands received items to the subscription handler", co.loc())
