"""C20 - a stalled or malicious handshake blocks nobody (structural clauses).

Decides (default features; thorough tier also async-std): (R20.1) in both accept tasks the future returned by the
per-connection callback is passed to spawn and never awaited by the accept loop, whose only suspension points
are its select over accept()/stop (IPC: plus the unlink after the loop), and the accept task returns only after the
stop arm fired (a failed accept() never ends the listener); (R20.2) the callback reports a failed
handshake with the non-blocking try_send(SocketEvent::AcceptFailed(..)) to the monitor looked up *after* the handshake
finished, and never awaits the monitor channel (C04 R04.5 re-evaluated); (R20.3) a peer is registered only after both exchanges succeeded, including the
compatibility check (C04 R04.1 re-evaluated), so a failed handshake leaves the peer set unchanged; (R20.4) at
every suspension point of greet_exchange, ready_exchange, util::peer_connected and the six peer_connected impls
no lock guard of any kind is held - parking_lot guards on the path, and any MutexGuard/RwLock*Guard-typed local (an async
mutex guard is Send, the compiler does not object) that may be initialised where the coroutine suspends, including inside
the private async helpers it awaits (a stalled peer cannot hold a socket-wide lock); (R20.5) garbage during the
handshake is an error value, not a panic, so it *is* reported: the panic/allocation obligations of C03 are
re-evaluated here. Does NOT decide observed latency classes."""
from ..sym import show, walk_expr
from ..common import short, trait_impls, coroutine_of
from .. import pathq
from ..report import Report
from . import acc

EXPLANATION = __doc__
PER_CONFIG = True
NOT_DECIDED = "run-time latency classes of well-behaved clients while stallers are present"
ASSUMPTIONS = ["spawned tasks run independently of the accept task (runtime contract)", "futures mpsc Sender::try_send never blocks"]
RULES = {
    "R20.1": "accept loop: callback future spawned, never awaited; only the select (and the IPC unlink) is awaited",
    "R20.2": "AcceptFailed through try_send; monitor never awaited (C04 R04.5)",
    "R20.3": "registration only after greeting + READY (+compatibility) succeeded (C04 R04.1)",
    "R20.4": "no mutex guard live at any suspension point of the handshake functions and peer_connected impls",
    "R20.5": "handshake input cannot panic the handshake task (C03 obligations re-evaluated)",
}


def guards_at_yields(f, rep, b, label):
    ny = 0
    bad = 0
    for p in pathq.paths(f, b, max_visits=2):
        live = {}
        for i, ev in enumerate(p.events):
            if ev.kind == "call" and ev.extra != "inlined" and short(ev.name) in ("lock", "write", "read") and ("Mutex" in ev.name or "RwLock" in ev.name) and ev.term is not None:
                live["_%d" % ev.term["dest"]["l"]] = ev
            elif ev.kind == "drop" and ev.place in live:
                del live[ev.place]
            elif ev.kind == "yield":
                ny += 1
                for g, lev in live.items():
                    bad += 1
                    rep.bad("R20.4", "R20.4|%s|guard-across-await" % label,
                            "%s: a mutex guard taken at %s is still held at a suspension point: a peer that stalls there blocks everyone who needs that lock" % (label, b.loc(lev.bb)), b.loc(ev.bb))
    # any lock guard, of any crate (an async mutex guard is Send, so the compiler does not object to holding it across an await),
    # that may still be initialised where the coroutine suspends - including inside the private async helpers it awaits
    def is_guard_ty(ty):
        return any(g in ty for g in ("MutexGuard", "RwLockReadGuard", "RwLockWriteGuard", "RwLockUpgradableReadGuard", "SemaphorePermit")) and not ty.startswith("&")
    for k in pathq.scope(f, b, allow_async=True):
        if not k.j.get("coroutine_kind"):
            continue
        for (ybb, l, dbb) in k.guard_locals_at_yields(is_guard_ty):
            bad += 1
            rep.bad("R20.4", "R20.4|%s|guard-across-await" % label,
                    "%s: a lock guard (%s, taken at %s) may still be held at a suspension point: a peer that stalls there blocks everyone who needs that lock"
                    % (label, k.j["locals"][l]["ty"][:60], k.loc(dbb)), k.loc(ybb))
    if not bad:
        rep.ok("R20.4", "R20.4|%s|guard-across-await" % label, "%s: no mutex guard is held at any of its suspension points (%d yield events on paths)" % (label, ny), b.loc())
    return ny


def run(ctx, f, rep):
    tasks = acc.accept_tasks(f)
    rep.floor("R20.1", "accept tasks (tcp, ipc)", len(tasks), 2)
    for b in tasks:
        acc.check_accept_loop(f, rep, "R20.1", b, "R20.1")
    from . import c04, c03
    sub = Report("C20", rep.config)
    c04.check_report(f, sub)
    for o in sub.obls:
        (rep.ok if o.ok else rep.bad)("R20.2", o.key.replace("R04.5", "R20.2", 1), o.what, o.loc, o.detail)
    sub = Report("C20", rep.config)
    c04.check_gate(f, sub)
    c04.check_ready(f, sub)
    for o in sub.obls:
        (rep.ok if o.ok else rep.bad)("R20.3", o.key.replace(o.rule, "R20.3", 1), o.what, o.loc, o.detail)
    # R20.4
    total = 0
    from . import hs
    for role, label in (("greet", "greet_exchange"), ("ready", "ready_exchange"), ("driver", "peer_connected")):
        hb = hs.co(f, role)
        if hb is None and role == "greet" and hs.greeting_in_driver(f):
            continue        # the driver exchanges the greetings itself: examined as the driver
        if hb is None:
            rep.bad("R20.4", "R20.4|%s|anchor" % label, "%s (found by signature) not found (anchor-missing)" % label)
            continue
        total += guards_at_yields(f, rep, hb, label)
    impls = trait_impls(f, "MultiPeerBackend", "peer_connected")
    rep.floor("R20.4", "peer_connected impls", len(impls), 6)
    for ty, outer in sorted(impls.items()):
        co = coroutine_of(f, outer)
        if co is not None:
            total += guards_at_yields(f, rep, co, ty)
    rep.floor("R20.4", "yield events examined", total, 10)
    # the accept callback itself
    cb = hs.accept_callbacks(f)
    for b in cb:
        guards_at_yields(f, rep, b, "accept-callback")
    # R20.5
    sub = Report("C20", rep.config)
    c03.run(ctx, f, sub)
    for o in sub.obls:
        (rep.ok if o.ok else rep.bad)("R20.5", o.key.replace(o.rule, "R20.5", 1), o.what, o.loc, o.detail)
