"""Foundation clauses shared by several properties.

A message-level property (REQ/REP envelopes, ROUTER routing, round-robin, PUB/SUB ...) silently relies on mechanisms that other
properties own: the decoder delivering every complete message (C02), one peer-table entry per connection (C04 R04.3/R04.4),
no lost wake-up (C06), the accept loop never running a handshake inline (C20 R20.1). A change that breaks one of those breaks
the dependent property as well - the independently written breaking changes of rounds 2 and 3 did exactly that (the same
decoder / identity / accept-loop change was authored against C01, C02, C05, C07 ...). Each property module therefore lists
the groups it depends on and has them re-evaluated here as necessary conditions under its own rule id `Rnn.F`; the imported
obligations keep the key of their origin, so a report still names the construct in the owning mechanism."""
from ..report import Report
from ..common import trait_impls

TEXT = {
    "decoder": "decoder delivers every complete message: typestate table, no stall with enough bytes buffered, buffer only consumed, accumulator kept (C02 R02.1-R02.3)",
    "identity": "one peer-table entry per connection: fresh unique key for anonymous / empty identities, length rule, overwrite on reconnect (C04 R04.3/R04.4)",
    "wakeup": "no lost wake-up and queue state integrity in the fair queue (C06 R06.1/R06.2/R06.4/R06.5)",
    "accept": "accept loops hand every connection to its own task and end only on stop (C20 R20.1)",
    "pubreader": "PUB's per-subscriber reader task forgets its peer when, and only when, that subscriber's stream ended or failed (C16 R16.3)",
    "trysend": "the non-blocking write used by the publishers: start_send only after Ready(Ok), Pending -> BufferFull, only the error kinds the publish loops continue after (C12 R12.2)",
}


def _run_group(ctx, f, group, prop):
    sub = Report(prop, ctx.report.config if getattr(ctx, "report", None) is not None else "default")
    if group == "decoder":
        from . import c02
        for self_ty, dec in trait_impls(f, "asynchronous_codec::Decoder", "decode").items():
            c02.analyse_decoder(f, sub, dec, self_ty)
        keep = lambda o: o.rule in ("R02.1", "R02.2", "R02.3")
    elif group == "identity":
        from . import c04
        c04.check_identity(f, sub)
        c04.check_registration(f, sub)
        c04.check_ready(f, sub)
        keep = lambda o: o.rule in ("R04.3", "R04.4") or "|ready|identity-" in o.key
    elif group == "wakeup":
        from . import c06
        c06.run(ctx, f, sub)
        keep = lambda o: o.rule in ("R06.1", "R06.2", "R06.4", "R06.5")
    elif group == "accept":
        from . import acc
        tasks = acc.accept_tasks(f)
        sub.floor("R20.1", "accept tasks (tcp, ipc)", len(tasks), 2)
        for b in tasks:
            acc.check_accept_loop(f, sub, "R20.1", b, "R20.1")
        keep = lambda o: o.rule == "R20.1"
    elif group == "pubreader":
        from . import c16
        c16.check_pub_reader(f, sub)
        keep = lambda o: "PUB-reader" in o.key
    elif group == "trysend":
        from . import c12
        c12.check_try_send(f, sub)
        keep = lambda o: o.rule == "R12.2"
    else:
        raise KeyError(group)
    return [o for o in sub.obls if keep(o)]


def import_groups(ctx, f, rep, prop, groups):
    rule = "R%s.F" % prop[1:]
    for g in groups:
        n = 0
        for o in _run_group(ctx, f, g, prop):
            n += 1
            (rep.ok if o.ok else rep.bad)(rule, "%s|%s|%s" % (rule, g, o.key), o.what, o.loc, o.detail)
        rep.floor(rule, "foundation group `%s` re-evaluated" % g, n, 2)
