"""Anchors and path views for the fair queue (shared by C05, C06, C14, C16)."""
from ..sym import show, walk_expr
from ..common import short
from .. import pathq


def inner_adt(f):
    """The struct behind the queue's Mutex: has a BinaryHeap, a HashMap of streams and an Option<Waker>."""
    for p, a in f.adts.items():
        if a["kind"] != "Struct":
            continue
        tys = [x["ty"] for x in a["variants"][0]["fields"]]
        if any("BinaryHeap" in t for t in tys) and any("HashMap" in t for t in tys) and any("Option<std::task::Waker>" in t or "Option<core::task::wake::Waker>" in t for t in tys):
            names = {}
            for x in a["variants"][0]["fields"]:
                if "BinaryHeap" in x["ty"]:
                    names["heap"] = x["name"]
                elif "HashMap" in x["ty"]:
                    names["streams"] = x["name"]
                elif "Waker" in x["ty"]:
                    names["waker"] = x["name"]
                elif "Atomic" in x["ty"]:
                    names["counter"] = x["name"]
                else:
                    # a private newtype around the atomic (`TicketCounter(AtomicUsize)`)
                    for p2, a2 in f.adts.items():
                        if a2["kind"] == "Struct" and p2.split("::")[-1] == x["ty"].split("<")[0].split("::")[-1] and \
                                any("Atomic" in y["ty"] for y in a2["variants"][0]["fields"]):
                            names["counter"] = x["name"]
                            names["counter_newtype"] = p2.split("::")[-1]
            return p, a, names
    return None, None, None


def inner_name(f):
    """last path segment of the queue-state struct (found by its fields), whatever it is called"""
    p, _, _ = inner_adt(f)
    return p.split("::")[-1] if p else "QueueInner"


# the poll of a checked-out peer stream: Stream::poll_next, or StreamExt::poll_next_unpin (= Pin::new(s).poll_next(cx))
INNER_POLL = ("poll_next", "poll_next_unpin")


def poll_next_body(f, inner_path):
    short_inner = inner_path.split("::")[-1]
    out = []
    for b in f.bodies:
        if b.j.get("name") == "poll_next" and (b.j.get("impl_trait") or "").endswith("Stream") and b.kind == "AssocFn":
            out.append(b)
    return out


def mentions_field(e, name):
    return any(isinstance(x, tuple) and x and x[0] == "field" and x[2] == name for x in walk_expr(e))


def is_store_to(ev, name):
    if ev.kind != "store" or not ev.extra or ev.extra.get("k") != "assign":
        return False
    pr = ev.extra["place"]["p"]
    return bool(pr) and pr[-1]["k"] == "field" and pr[-1].get("name") == name


def lock_regions(p):
    """event index -> id of the lock region it is in (index of the lock call), or None outside any region."""
    out = {}
    cur = None
    guard_places = {}
    for i, ev in enumerate(p.events):
        if ev.kind == "call" and short(ev.name) == "lock" and "lock_api" in ev.name or (ev.kind == "call" and short(ev.name) == "lock" and "Mutex" in ev.name):
            cur = i
            if ev.term is not None:
                guard_places[i] = "_%d" % ev.term["dest"]["l"]
        elif ev.kind == "drop" and cur is not None and "MutexGuard" in (ev.extra or "") and ev.place == guard_places.get(cur):
            out[i] = cur
            cur = None
            continue
        out[i] = cur
    return out


def heap_call(ev, names, what):
    return ev.kind == "call" and ev.extra != "inlined" and short(ev.name) == what and "BinaryHeap" in ev.name


def map_call(ev, what):
    return ev.kind == "call" and ev.extra != "inlined" and short(ev.name) == what and "HashMap" in ev.name and "scc" not in ev.name
