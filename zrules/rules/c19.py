"""C19 - endpoint parsing total, strict, round-trips (structural clauses).

Decides: (R19.1) totality: every panic-capable operation in Endpoint::from_str (and its nested helper),
Host::try_from/from_str, Transport::from_str, the TryIntoEndpoint impls and the Display impls is discharged on
every path (obligation engine of C03; all inputs are untrusted): capture-group unwraps by counting the
unconditional groups of the literal pattern of the regex they come from, last().unwrap() by the dominating length
test, the bracket-stripping slice by the conjunction starts_with('['), len >= 4 and last byte == b']' decided on
the path (ASCII at both ends = char boundaries); (R19.2) grammar literals: both patterns anchored at both ends;
scheme = one or more [[:lower:]] then `://` then a non-empty rest; host/port = non-empty host, ':' and a
digits-only port captured to the end; the port goes through str::parse::<u16> and its error is mapped, not
unwrapped; the scheme table is {tcp, ipc} and Transport::as_str = from_str table; (R19.3) writer/reader agreement:
Display emits `tcp://` host `:` port with brackets exactly on the Ipv6 arm of the host, `ipc://` path; the host
parser tries IPv4 first, strips exactly one bracket pair before the IPv6 parse and otherwise keeps the string
as a domain. Does NOT decide parse(display(parse(s))) == parse(s) for all strings (value-level law)."""
import ast
import re
from ..sym import Sym, show, walk_expr, PathExplosion
from ..common import short, strip_casts, emptiness, strip_view
from .. import pathq, oblig, callgraph
from . import tables

from ..report import norm_key

EXPLANATION = __doc__
NOT_DECIDED = "the value-level round-trip law over all strings; exact language accepted by the regex crate and by std's address parsers (trusted)"
ASSUMPTIONS = ["regex crate: an unconditional capture group participates in every match", "std Ipv4Addr/Ipv6Addr/u16 FromStr are total and strict (u16 accepts a leading '+': excluded by the digits-only port group)"]
RULES = {
    "R19.1": "totality: all panic-capable operations on the parse/format surface discharged on every path",
    "R19.2": "grammar literals, port through parse::<u16> with mapped error, scheme table writer = reader = {tcp, ipc}",
    "R19.3": "Display/parse agreement: brackets exactly for Ipv6; IPv4 first, one bracket pair stripped, else domain",
}

ALLOW = {
    "R19.1|<endpoint::host::Host as std::convert::TryFrom<std::string::String>>::try_from|assert_failed#0":
        "debug_assert_eq!(substr.len(), s.len() - 2): substr is s[1..len-1], whose length is len-2 by construction (the slice itself is "
        "discharged separately); debug builds only; cannot fail for any input.",
}


def regex_literals(f):
    """static name -> pattern literal, from the Lazy initialiser closures that call Regex::new(const)"""
    out = {}
    for b in f.bodies:
        if b.kind == "Closure" and b.j.get("parent") and f.body(b.j["parent"]) is not None and f.body(b.j["parent"]).kind.startswith("Static"):
            for bb, t, fn in b.calls():
                if fn and fn["name"] == "new" and "Regex" in fn["path"]:
                    e = b.expr_of_operand(t["args"][0])
                    for x in walk_expr(e):
                        s = tables.const_str(x) if isinstance(x, tuple) else None
                        if s is not None:
                            out[b.j["parent"].split("::")[-1]] = (s, b)
                            break
    return out


def unconditional_groups(pat):
    """number of capture groups that take part in every match: groups not under ?, *, {0,..} or an alternation"""
    if pat is None:
        return 0
    n = 0
    depth = 0
    stack = []
    i = 0
    cond_groups = set()
    opens = []
    top_alt = False
    in_class = 0
    while i < len(pat):
        c = pat[i]
        if c == "\\":
            i += 2
            continue
        if c == "[":
            in_class += 1
        elif c == "]" and in_class:
            in_class -= 1
        elif in_class:
            pass
        elif c == "(":
            cap = not pat.startswith("(?", i) or pat.startswith("(?P<", i) or pat.startswith("(?<", i) and not pat.startswith("(?<=", i) and not pat.startswith("(?<!", i)
            opens.append((len(opens), cap, depth))
            stack.append(len(opens) - 1)
            depth += 1
        elif c == ")":
            depth -= 1
            g = stack.pop()
            nxt = pat[i + 1:i + 2]
            if nxt in ("?", "*") or pat.startswith("{0", i + 1):
                cond_groups.add(g)
        elif c == "|":
            if depth == 0:
                top_alt = True
            else:
                cond_groups.add(stack[-1])
        i += 1
    if top_alt:
        return 0
    total = 0
    for (gi, cap, d) in opens:
        if cap and gi not in cond_groups and d == 0:
            total += 1
    return total


def parse_target_fn(fn):
    """T for `s.parse::<T>()` and `<T as FromStr>::from_str(s)` (the same conversion), else None"""
    if fn and fn["name"] in ("parse", "from_str") and "Arguments" not in fn["path"] and (fn["name"] == "parse" or "FromStr" in (fn.get("trait") or "")):
        a = fn.get("args") or []
        return a[0] if a else None
    return None


def surface(f):
    roots = []
    for b in f.bodies:
        if "::tests" in b.path or "::test::" in b.path:
            continue
        if re.search(r"(^|[<\s&:])endpoint::", b.path) and b.kind in ("AssocFn", "Fn", "Closure"):
            roots.append(b.path)       # every function of the `endpoint` module tree (its own items and its impls)
    return roots


def decode_fmt_template(val):
    """rustc's packed format_args template (length-prefixed literal pieces, 0xC0.. = argument) -> text with {} placeholders"""
    try:
        raw = ast.literal_eval(val.strip())
    except Exception:
        return None
    if not isinstance(raw, (bytes, bytearray)):
        return None
    out = ""
    i = 0
    while i < len(raw):
        b = raw[i]
        if b == 0:
            break
        if b < 0x80:
            out += raw[i + 1:i + 1 + b].decode("utf-8", "replace")
            i += 1 + b
        else:
            out += "{}"
            i += 1
    return out


def run(ctx, f, rep):
    regs = regex_literals(f)
    rep.floor("R19.2", "regex statics with literal patterns", len(regs), 2)
    edges = callgraph.build(f)
    roots = surface(f)
    R = callgraph.reachable(edges, roots)
    rep.count("surface_functions", len(R))
    # which regex does a `captures` result come from
    def regex_of(e):
        c = pathq.mentions_call(e, lambda y: short(y[1]) == "captures")
        if c is None:
            return None
        # the pattern is the receiver of `captures`; its text argument may itself come out of another pattern's match
        recv = c[2][0] if c[2] else c
        for x in walk_expr(recv):
            if isinstance(x, tuple) and x and x[0] == "const":
                for name in regs:
                    if name in x[1]:
                        return name
        # Lazy statics are read through `&STATIC`: look for the static's name anywhere in the receiver's text
        txt = show(recv)
        for name in regs:
            if name in txt:
                return name
        return None

    def extra(f_, p, i, ev, site):
        if site["kind"] == "unwrap" and ev.args:
            x = ev.args[0]
            g = pathq.mentions_call(x, lambda y: short(y[1]) == "get" and "Captures" in y[1])
            if g is not None and x[0] in ("call", "pure") and short(x[1]) == "get":
                idx = strip_casts(x[2][1])
                name = regex_of(x)
                if name and idx[0] == "int":
                    n = unconditional_groups(regs[name][0])
                    def is_caps(y):
                        return isinstance(y, tuple) and y and y[0] in ("call", "pure") and short(y[1]) == "captures"
                    # the Captures this group is read from is the Some payload of a captures() call (match / if let / ok_or(..)? / unwrap)
                    matched = any(isinstance(y, tuple) and y and y[0] == "downcast" and y[2] == "Some" and is_caps(pathq.unwrap_try(y[1])) for y in walk_expr(x)) or \
                        any(e[0] == "discr" and c == ("eq", 0) and pathq.mentions_call(e[1], lambda y: short(y[1]) == "captures") is not None and
                            pathq.mentions_call(e[1], lambda y: short(y[1]) == "branch") is not None for (e, c, _, _) in p.conds[:ev.ncond]) or \
                        pathq.mentions_call(x, lambda y: short(y[1]) == "branch") is not None
                    return (idx[1] <= n and matched), "group %d of %s `%s` (%d unconditional groups) after a successful match" % (idx[1], name, regs[name][0], n)
        if site["kind"] == "index" and ("String" in ev.name or "str" in ev.name) and len(ev.args) > 1:
            r = ev.args[1]
            if r[0] == "agg" and (r[2] or "").endswith("Range") and len(r[4]) == 2:
                a, b = strip_casts(r[4][0]), strip_casts(r[4][1])
                s = oblig.view_key(ev.args[0])
                if a == ("int", 1) and b[0] == "binop" and b[1] == "Sub" and b[3] == ("int", 1) and oblig.buffer_key(b[2]) is not None and oblig.buffer_key(b[2])[0] == s[0]:
                    conds = p.conds[:ev.ncond]
                    lf = oblig.LenFacts(conds, oblig.buffer_key(b[2]))
                    starts = any(e[0] in ("pure", "call") and short(e[1]) == "starts_with" and pathq.truth(c) is True and any(a2 == ("int", 91) or "'['" in show(a2) for a2 in e[2]) for (e, c, _, _) in conds)
                    def last_is_close(e, c):
                        if e[0] == "binop" and e[1] in ("Eq", "Ne") and pathq.truth(c) is (e[1] == "Eq"):
                            for a_, b_ in ((e[2], e[3]), (e[3], e[2])):
                                if b_ == ("int", 93) and pathq.mentions_call(a_, lambda y: short(y[1]) == "last") is not None:
                                    return True
                        return False
                    ends = any(last_is_close(e, c) for (e, c, _, _) in conds) or \
                        any(e[0] in ("pure", "call") and short(e[1]) == "ends_with" and pathq.truth(c) is True and any(a2 == ("int", 93) or "']'" in show(a2) for a2 in e[2]) for (e, c, _, _) in conds)
                    return (lf.ge_const(2) and starts and ends), "s[1..len-1] with len>=%s, starts_with('[') %s, last byte ']' %s (ASCII at both cut points = char boundaries)" % (lf.iv.lo, starts, ends)
        if site["kind"] == "unwrap" and "Result" in site["name"] and ev.args:
            x = ev.args[0]
            if x[0] in ("call", "pure") and short(x[1]) == "new" and "Regex" in x[1] and x[2]:
                pat = None
                for y in walk_expr(x[2][0]):
                    if isinstance(y, tuple) and tables.const_str(y) is not None:
                        pat = tables.const_str(y)
                try_ok = pat is not None and check_pattern_compiles(pat)
                return try_ok, "Regex::new on the constant pattern `%s` (checked by the embedded pattern reader: balanced, known escapes/classes)" % pat
        return None

    total = 0
    for path in sorted(R):
        body = f.body(path)
        if body is None or "::tests" in path:
            continue
        inv = oblig.inventory(body)
        if not inv:
            continue
        try:
            paths = Sym(f, max_visits=2, max_paths=20000).paths(body)
        except PathExplosion as e:
            rep.bad("R19.1", "R19.1|%s|explosion" % path, str(e), body.loc())
            continue
        from .c03 import site_keys
        keys, _ = site_keys(body)
        res = oblig.evaluate(f, body, paths, extra_discharge=extra)
        for k, r in sorted(res.items(), key=lambda kv: kv[0][1]):
            s = r["site"]
            total += 1
            key = "R19.1|%s|%s" % (path, keys[k])
            what = "%s in %s" % (s["name"], path)
            akey = next((k_ for k_ in ALLOW if norm_key(k_) == norm_key(key)), None)
            if akey is not None:
                rep.ok("R19.1", key, "%s: allow-listed: %s" % (what, ALLOW[akey]), s["loc"])
            elif r["paths"] == 0:
                rep.bad("R19.1", key, "%s: site not reached by any enumerated path" % what, s["loc"])
            elif r["fail"] is not None:
                rep.bad("R19.1", key, "%s: NOT guarded on some path: %s" % (what, r["fail"][0]), s["loc"], detail="path decisions: %s" % r["fail"][1])
            else:
                rep.ok("R19.1", key, "%s: discharged on %d path(s): %s" % (what, r["paths"], "; ".join(sorted(r["reasons"]))[:220]), s["loc"])
    rep.floor("R19.1", "panic obligations on the endpoint surface", total, 9)
    cyc = callgraph.cycles_within(edges, R)
    rep.check(not cyc, "R19.1", "R19.1|terminates", "no recursion on the parse/format surface (parsing terminates): %s" % cyc[:1])
    # ---- R19.2 literals
    tr = regs.get("TRANSPORT_REGEX", (None, None))[0]
    hp = regs.get("HOST_PORT_REGEX", (None, None))[0]
    pats = sorted((v[0] or "") for v in regs.values())
    scheme = [p_ for p_ in pats if "://" in p_]
    hostport = [p_ for p_ in pats if "://" not in p_ and ":" in p_]
    rep.check(len(scheme) == 1 and len(hostport) == 1, "R19.2", "R19.2|two-patterns", "one scheme pattern and one host:port pattern: %s" % pats)
    if scheme:
        s0 = scheme[0]
        m = re.fullmatch(r"\^\((\[\[:lower:\]\]|\[a-z\])\+\)://\(\.\+\)\$", s0)
        rep.check(bool(m), "R19.2", "R19.2|scheme-pattern", "scheme pattern `%s` is ^(lower-case letters, one or more)://(non-empty rest)$" % s0)
    if hostport:
        h0 = hostport[0]
        m = re.fullmatch(r"\^\(\.\+\):\((\\d|\[0-9\])\+\)\$", h0)
        rep.check(bool(m), "R19.2", "R19.2|hostport-pattern", "host/port pattern `%s` is ^(non-empty host):(ASCII-or-Unicode digits, one or more)$" % h0)
    # both are used by from_str / its helper through `captures`
    used = set()
    for b in [f.body(p_) for p_ in sorted(R) if f.body(p_) is not None]:
        if True:
            for bb, t, fn in b.calls():
                if fn and fn["name"] == "captures":
                    e = b.expr_of_operand(t["args"][0])
                    txt = show(e)
                    for name in regs:
                        if name in txt:
                            used.add(name)
    rep.check(used == set(regs) and len(used) >= 2, "R19.2", "R19.2|patterns-used", "the endpoint parser matches against both patterns: %s" % sorted(used))
    # port: parse::<u16> with mapped error
    # the function that turns the text after `tcp://` into (host, port): the one that parses a u16, wherever it lives
    def group_of(e):
        for x in walk_expr(e):
            if isinstance(x, tuple) and x and x[0] in ("call", "pure") and short(x[1]) == "get" and "Captures" in x[1] and len(x[2]) > 1:
                g = strip_casts(x[2][1])
                if g[0] == "int":
                    return g[1], regex_of(x)
        return None, None
    hp_name = next((n_ for n_, v in regs.items() if "://" not in (v[0] or "")), None)
    # ... or a private helper of it that is looked through: then the rule is evaluated in the function that calls the helper,
    # where the argument of the parse is known
    inl = pathq.default_inline(f)
    looked_through = set()
    for b in [f.body(p_) for p_ in sorted(R)]:
        if b is None:
            continue
        for bb, t, fn in b.calls():
            if fn and inl(fn):
                r_ = fn.get("resolved") or {}
                looked_through.add(r_.get("path") if r_.get("kind") == "item" else fn["path"])
    hpf = [b for b in [f.body(p_) for p_ in sorted(R)] if b is not None and b.path not in looked_through and
           any(fn and parse_target_fn(fn) == "u16" for sb in pathq.scope(f, b) for bb, t, fn in sb.calls())]
    rep.floor("R19.2", "functions on the endpoint surface that parse a u16 port", len(hpf), 1)
    for b in hpf:
        nport = nhost = 0
        for p in pathq.paths(f, b):
            for i, ev in pathq.calls(p, "parse", "from_str"):
                tt = parse_target_fn(ev.fn) if ev.fn else None
                if tt == "u16":
                    nport += 1
                    g, rname = group_of(ev.args[0])
                    rep.check(g == 2 and rname == hp_name, "R19.2", "R19.2|port-parse",
                              "the port text parsed as u16 is capture group 2 of the host:port pattern (group %s of %s); a failed parse is an error value (totality: R19.1)" % (g, rname), b.loc(ev.bb))
                elif tt is not None and tt.split("::")[-1] == "Host":
                    nhost += 1
                    g, rname = group_of(ev.args[0])
                    rep.check(g == 1 and rname == hp_name, "R19.2", "R19.2|host-parse", "the host text is capture group 1 of the host:port pattern (group %s of %s)" % (g, rname), b.loc(ev.bb))
        rep.floor("R19.2", "port parse events on paths", nport, 1)
        rep.floor("R19.2", "host parse events on paths", nhost, 1)
        rep.ok("R19.2", "R19.2|port-type", "the port is parsed as u16 (0..=65535)", b.loc())
    tables.check_name_table(f, rep, "R19.2", "Transport", ["Tcp", "Ipc"], want_reader=True, names={"Tcp": "tcp", "Ipc": "ipc"})
    # ---- R19.3 Display
    disp = [b for b in f.bodies if b.j.get("name") == "fmt" and (b.j.get("impl_trait") or "").endswith("fmt::Display") and (b.j.get("impl_self") or "").split("::")[-1] == "Endpoint"]
    rep.floor("R19.3", "Display for Endpoint", len(disp), 1)
    hadt = tables.adt_by_suffix(f, "host::Host")
    hnames = [v["name"] for v in hadt["variants"]] if hadt else []
    for b in disp:
        seen = {}
        for p in pathq.paths(f, b):
            if p.end != "return":
                continue
            tpl = None
            for ev in p.events:
                if ev.kind == "call" and short(ev.name) in ("new", "new_v1", "new_const", "from_str") and "Arguments" in ev.name:
                    for a in ev.args:
                        for x in walk_expr(a):
                            if isinstance(x, tuple) and x and x[0] == "const":
                                raw = x[1][6:] if x[1].startswith("const ") else x[1]
                                t_ = decode_fmt_template(raw) if raw.startswith('b"') else tables.const_str(x)
                                if t_:
                                    tpl = t_
            if tpl is None:
                continue
            hostv = None
            for (e, c, _, _) in p.conds:
                if e[0] == "discr" and "Host" in str(e[2] if len(e) > 2 else ""):
                    if c[0] == "eq" and c[1] < len(hnames):
                        hostv = hnames[c[1]]
                    elif c[0] == "notin":
                        hostv = "not:" + ",".join(hnames[v] for v in c[1] if v < len(hnames))
            seen[tpl] = hostv
        want_v6 = [t_ for t_, h in seen.items() if t_ == "tcp://[{}]:{}"]
        want_other = [t_ for t_, h in seen.items() if t_ == "tcp://{}:{}"]
        rep.check(bool(want_v6) and seen.get("tcp://[{}]:{}") == "Ipv6", "R19.3", "R19.3|brackets-exactly-for-ipv6",
                  "`tcp://[host]:port` is written exactly on the Ipv6 arm of the host (templates and host decisions: %s)" % seen, b.loc())
        rep.check(bool(want_other) and seen.get("tcp://{}:{}") in ("not:Ipv6", "Ipv4", "Domain"), "R19.3", "R19.3|plain-for-others",
                  "`tcp://host:port` is written for every other host kind (decision: %s)" % seen.get("tcp://{}:{}"), b.loc())
        rep.check(any(t_.startswith("ipc://{}") for t_ in seen), "R19.3", "R19.3|ipc-form", "`ipc://path` is written for IPC endpoints: %s" % sorted(seen), b.loc())
    # host parser order
    hp_ = [b for b in f.bodies if b.j.get("name") == "try_from" and (b.j.get("impl_self") or "").split("::")[-1] == "Host" and "String" in b.path]
    rep.floor("R19.3", "Host::try_from(String)", len(hp_), 1)
    for b in hp_:
        ok4 = ok6 = okd = False
        stripped = False
        for p in pathq.paths(f, b):
            if p.end != "return" or p.ret is None:
                continue
            txt = show(p.ret)
            parses = [(i, ev) for i, ev in pathq.calls(p, "parse", "from_str") if ev.fn and parse_target_fn(ev.fn) is not None]
            if "Host::Ipv4" in txt:
                ok4 = len(parses) == 1 and "Ipv4Addr" in parse_target_fn(parses[0][1].fn)
            if "Host::Ipv6" in txt:
                order = [parse_target_fn(ev.fn) for i, ev in parses]
                ok6 = len(parses) == 2 and "Ipv4Addr" in str(order[0]) and "Ipv6Addr" in str(order[1])
                arg6 = parses[-1][1].args[0] if parses else None
                if arg6 is not None and pathq.mentions_call(arg6, lambda y: short(y[1]) == "index") is not None:
                    stripped = True
            if "Host::Domain" in txt:
                # Ok(Host::Domain(s)): the payload IS the argument string (through clones / borrows), not a piece of it
                dom = next((x for x in walk_expr(p.ret) if isinstance(x, tuple) and x and x[0] == "agg" and x[3] == "Domain" and x[4]), None)
                okd = len(parses) == 2 and dom is not None and strip_view(dom[4][0]) == ("arg", 1)
            if "Err" in txt and "Ok" not in txt:
                emp = any(emptiness(e, c) is not None and emptiness(e, c)[1] is True for (e, c, _, _) in p.conds)
                rep.check(emp, "R19.3", "R19.3|host-empty-rejected", "the only error of the host parser is the empty host", b.loc())
        rep.check(ok4, "R19.3", "R19.3|ipv4-first", "an IPv4 literal is recognised first", b.loc())
        rep.check(ok6 and stripped, "R19.3", "R19.3|ipv6-second-brackets-stripped", "otherwise an IPv6 literal, bare or with exactly one bracket pair stripped (second parse %s, bracketed form %s)" % (ok6, stripped), b.loc())
        rep.check(okd, "R19.3", "R19.3|else-domain", "anything else non-empty is kept verbatim as a domain name", b.loc())


def check_pattern_compiles(pat):
    """Small reader for the regex subset used here: balanced (), [] with POSIX classes, known escapes, quantifiers after atoms."""
    depth = 0
    i = 0
    prev_atom = False
    while i < len(pat):
        c = pat[i]
        if c == "\\":
            if i + 1 >= len(pat) or pat[i + 1] not in "dDwWsSbB.^$|()[]{}*+?\\/:-":
                return False
            i += 2
            prev_atom = True
            continue
        if c == "[":
            j = i + 1
            d = 1
            while j < len(pat) and d:
                if pat.startswith("[:", j):
                    k = pat.find(":]", j)
                    if k < 0 or pat[j + 2:k] not in ("lower", "upper", "alpha", "digit", "alnum", "space", "punct", "xdigit", "word"):
                        return False
                    j = k + 2
                    continue
                if pat[j] == "]":
                    d -= 1
                j += 1
            if d:
                return False
            i = j
            prev_atom = True
            continue
        if c == "(":
            depth += 1
            prev_atom = False
        elif c == ")":
            depth -= 1
            if depth < 0:
                return False
            prev_atom = True
        elif c in "*+?":
            if not prev_atom:
                return False
        elif c in "^$|":
            prev_atom = False
        else:
            prev_atom = True
        i += 1
    return depth == 0
