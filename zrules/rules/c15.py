"""C15 - proxy() forwards verbatim (structural clauses).

In the proxy coroutine (after select! expansion), on every path: (R15.1) a message obtained from the select arm
fed by `X.recv()` is sent, unmodified and by move, exactly once per loop iteration to the *other* socket (front ->
back, back -> front), never to the socket it came from; (R15.2) when the capture option is Some, a clone of the
same message is sent to the capture socket before the forward, in both arms, and every forward on the path has
its capture copy; no forward happens outside the two select arms (no capture-less fast path); (R15.3) an Err
from either recv ends proxy with that error; a failed send (capture or forward) ends it too (`?`), nothing is
swallowed (the outcome of every send is decided: no `let _ = x.send(m).await`); (R15.4) chain clause: distinct ROUTER keys
(C04 R04.3), overwrite on reconnect (C04 R04.4, ROUTER/DEALER backend), no dropped ready event (C06 R06.1/R06.2/R06.5),
re-evaluated. Witness crate: a send-only socket is rejected as front/back end by the type system.
Does NOT decide select! fairness; both-ready schedules rely on C14."""
from ..sym import show, walk_expr, canon
from ..common import short
from .. import pathq
from . import names
from .c07 import msg_mutations

EXPLANATION = __doc__
WITNESS = ['C15']
NOT_DECIDED = "fairness between the two arms; behaviour when both sides are ready relies on cancel-safety of recv (C14)"
ASSUMPTIONS = ["futures::select! polls the futures it is given and drops the losers", "SocketSend::send of each socket type delivers what it is given (C07-C12)"]
RULES = {
    "R15.1": "each received message is forwarded once, unmodified, to the opposite socket",
    "R15.2": "capture gets a clone before every forward when installed; no forward without its capture copy",
    "R15.3": "recv errors and send errors end proxy with the error",
    "R15.4": "chain clause: distinct ROUTER keys (C04 R04.3) and no dropped ready event (C06 R06.1/R06.2), re-evaluated",
    "R15.F": "foundation clauses re-evaluated as necessary conditions: " + ", ".join(['decoder']),
}


def side_of(e):
    """0 = frontend, 1 = backend, 2 = capture: which captured parameter does expression e reach?"""
    for x in walk_expr(e):
        if isinstance(x, tuple) and x and x[0] == "field" and x[1] == ("arg", 1) and x[2] in (0, 1, 2, "0", "1", "2"):
            return int(x[2])
    return None


def arm_of(e):
    """index k of the select arm (`__PrivResult::_k`) a message expression was taken from, and the poll it belongs to"""
    for x in walk_expr(e):
        if isinstance(x, tuple) and x and x[0] == "downcast" and isinstance(x[2], str) and x[2].startswith("_") and x[2][1:].isdigit():
            poll = pathq.mentions_call(x[1], lambda y: short(y[1]) == "poll" and "PollFn" in y[1])
            return int(x[2][1:]), poll
    return None, None


def arm_sources(poll):
    """select arm index -> side whose recv() feeds it, from the closure's capture order"""
    out = {}
    pf = pathq.mentions_call(poll, lambda y: short(y[1]) == "poll_fn") if poll is not None else None
    if pf is None:
        return out
    clo = pf[2][0]
    if clo[0] != "agg":
        return out
    for k, op in enumerate(clo[4]):
        rc = pathq.mentions_call(op, lambda y: short(y[1]) == "recv")
        if rc is not None:
            out[k] = side_of(rc[2][0])
    return out


DEPENDS = ['decoder']     # foundation groups re-evaluated as necessary conditions (rules/found.py)


def run(ctx, f, rep):
    from . import found
    found.import_groups(ctx, f, rep, 'C15', DEPENDS)
    bs = [b for b in f.bodies if b.path.endswith("::proxy::{closure#0}") and b.j.get("coroutine_kind")]
    rep.floor("R15.1", "proxy coroutine", len(bs), 1)
    for b in bs:
        seen_fw = set()
        seen_cap = set()
        nerr = 0
        for p in pathq.paths(f, b, max_visits=2, inline_async=True):
            sends = [(i, ev) for i, ev in pathq.calls(p, "send") if "SocketSend" in ev.name]
            forwards = []
            captures = []
            for i, ev in sends:
                msg = ev.args[1]
                is_clone = msg[0] in ("call", "pure") and short(msg[1]) == "clone"
                k, poll = arm_of(msg)
                src = arm_sources(poll).get(k) if k is not None else None
                dst = side_of(ev.args[0])
                if k is None or src is None:
                    rep.bad("R15.1", "R15.1|send-without-provenance", "proxy sends a message that does not come from a select arm fed by recv(): %s" % show(msg)[:80], b.loc(ev.bb))
                    continue
                if is_clone:
                    captures.append((i, k, poll, dst))
                    seen_cap.add(k)
                    rep.check(dst == 2, "R15.2", "R15.2|clone-goes-to-capture|arm%d" % k, "the cloned copy of a message from %s goes to the capture socket (goes to %s)" % (["frontend", "backend"][src], dst), b.loc(ev.bb))
                else:
                    forwards.append((i, k, poll, dst, src))
                    seen_fw.add((src, dst))
                    muts = msg_mutations(p, lambda e: any(y == poll for y in walk_expr(e)) if poll is not None else False, upto=i)
                    rep.check(dst is not None and dst != src and dst != 2 and not muts, "R15.1", "R15.1|forward-to-opposite|from%d" % src,
                              "a message received on %s is forwarded unmodified to %s (mutations %s)" % (["frontend", "backend"][src], ["frontend", "backend", "capture"][dst] if dst is not None else None, [short(m.name) for _, m in muts]), b.loc(ev.bb))
            # one forward per received message (per poll)
            per_poll = {}
            for (i, k, poll, dst, src) in forwards:
                per_poll.setdefault(poll, []).append(i)
            for poll, idxs in per_poll.items():
                rep.check(len(idxs) == 1, "R15.1", "R15.1|forward-once", "each received message is forwarded exactly once (%d sends)" % len(idxs), b.loc())
            # capture before forward when capture is Some on this path
            for (i, k, poll, dst, src) in forwards:
                cap_some = None
                for (e, c, _, _) in p.conds[:p.events[i].ncond]:
                    # the capture option itself (through `&mut`, as_mut(), as_deref_mut() ...), not something computed from it
                    x = canon(e[1]) if e[0] == "discr" else None
                    while x is not None and x[0] == "havoc":      # the option after a call that borrowed it mutably (as_mut)
                        x = canon(x[3])
                    if e[0] == "discr" and side_of(e[1]) == 2 and x[0] == "field" and c[0] == "eq":
                        cap_some = (c[1] == 1)
                mine = [ci for (ci, ck, cpoll, cdst) in captures if cpoll == poll and ci < i]
                if cap_some is True:
                    rep.check(len(mine) == 1, "R15.2", "R15.2|capture-before-forward|from%d" % src,
                              "with a capture socket installed, a copy of the message is sent to it before the forward (copies before this forward: %d)" % len(mine), b.loc(p.events[i].bb))
                elif cap_some is None:
                    rep.bad("R15.2", "R15.2|forward-without-capture-decision|from%d" % src,
                            "a forward happens on a path that never looked at the capture option: the capture socket misses this message", b.loc(p.events[i].bb))
            # R15.3 every send's outcome is looked at (a `let _ = x.send(m).await` swallows a failed forward)
            for i, ev in sends:
                decided = any(e[0] == "discr" and any(y == ev.result for y in walk_expr(e[1])) and
                              ((e[1][0] in ("call", "pure") and short(e[1][1]) == "branch") or e[1][0] in ("field", "downcast"))
                              for (e, c, _, _) in p.conds[ev.ncond:])
                later = [1 for e2 in p.events[i + 1:] if e2.kind in ("call", "yield")]
                if not decided and p.end == "return" or (not decided and any(j > i for j, _ in sends)):
                    rep.bad("R15.3", "R15.3|send-result-ignored", "the result of a send is never looked at on this path: a failed capture copy or forward is swallowed", b.loc(ev.bb))
                elif decided:
                    rep.ok("R15.3", "R15.3|send-result-ignored", "the result of every send is decided (`?` or match)", b.loc(ev.bb))
            # R15.3 errors end the function
            if p.end == "return":
                rk = pathq.ret_kind(p)
                if rk == "Err":
                    nerr += 1
            for (e, c, bb_, _) in p.conds:
                # a recv result decided Err must be followed by return Err on this path with no later sends
                if e[0] == "discr" and c == ("eq", 1) and e[1][0] == "field" and e[1][1][0] == "downcast" and isinstance(e[1][1][2], str) and e[1][1][2].startswith("_"):
                    ok = p.end == "return" and pathq.ret_kind(p) == "Err"
                    rep.check(ok, "R15.3", "R15.3|recv-error-ends-proxy", "an error from recv ends proxy with that error (path end %s)" % p.end, b.loc(bb_))
                if e[0] == "discr" and c == ("eq", 1) and e[1][0] in ("pure", "call") and short(e[1][1]) == "branch" and \
                        pathq.mentions_call(e[1], lambda y: pathq.is_poll_of(y, "send") or (short(y[1]) == "poll" and "dyn" in y[1])) is not None:
                    ok = p.end == "return" and pathq.ret_kind(p) == "Err"
                    rep.check(ok, "R15.3", "R15.3|send-error-ends-proxy", "a failed send ends proxy with the error (path end %s)" % p.end, b.loc(bb_))
        rep.check((0, 1) in seen_fw and (1, 0) in seen_fw, "R15.1", "R15.1|both-directions", "both directions are forwarded: %s" % sorted(seen_fw), b.loc())
        rep.check(seen_cap == {0, 1}, "R15.2", "R15.2|capture-both-arms", "the capture copy exists in both arms: %s" % sorted(seen_cap), b.loc())
        rep.floor("R15.3", "error exits of proxy on paths", nerr, 2)
        # every send result is looked at: no `let _ =` on a send
        sends_static = [bb for k in pathq.scope(f, b, allow_async=True) for bb, t, fn in k.calls()
                        if fn and fn["name"] == "send" and "SocketSend" in (fn.get("trait") or fn["path"])]
        rep.floor("R15.1", "send call sites in proxy and its private helpers", len(sends_static), 2)
    # R15.4: the chain clause (REQ - ROUTER/DEALER - REP returns every client its own replies) additionally needs distinct
    # ROUTER keys per connection (C04 R04.3: an empty announced identity gets a fresh one) and that no ready event of a
    # proxied connection is dropped (C06 R06.1/R06.2): re-evaluated here as necessary conditions
    from . import c04, c06
    from ..report import Report
    sub = Report("C15", rep.config)
    c04.check_identity(f, sub)
    for o in sub.obls:
        (rep.ok if o.ok else rep.bad)("R15.4", o.key.replace("R04.3", "R15.4", 1), o.what, o.loc, o.detail)
    # ... and that a client or worker that reconnects under the same identity replaces its old table entry (C04 R04.4 for the
    # backend ROUTER and DEALER share): otherwise the forwarded reply is written to the dead connection
    sub = Report("C15", rep.config)
    c04.check_registration(f, sub)
    n = 0
    for o in sub.obls:
        if names.of(f, "GenericSocketBackend") in o.key and o.rule == "R04.4":
            n += 1
            (rep.ok if o.ok else rep.bad)("R15.4", o.key.replace("R04.4", "R15.4", 1), o.what, o.loc, o.detail)
    rep.floor("R15.4", "registration obligations of the ROUTER/DEALER backend", n, 3)
    sub = Report("C15", rep.config)
    c06.run(ctx, f, sub)
    for o in sub.obls:
        if o.rule in ("R06.1", "R06.2", "R06.5"):
            (rep.ok if o.ok else rep.bad)("R15.4", o.key.replace(o.rule, "R15.4", 1), o.what, o.loc, o.detail)
