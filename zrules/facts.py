"""Fact model over the JSON emitted by zmqfacts: bodies, CFG, dominators,
expression reconstruction, call-site queries, pretty printer.

Nothing here is specific to one property; rules live in zrules/rules/."""
import json
import re
from functools import lru_cache


# ----------------------------------------------------------------- printing
def fmt_place(p):
    s = "_%d" % p["l"]
    for e in p["p"]:
        k = e["k"]
        if k == "deref":
            s = "(*%s)" % s
        elif k == "field":
            s = "%s.%s" % (s, e["name"] if e.get("name") else e["i"])
        elif k == "downcast":
            s = "(%s as %s)" % (s, e.get("name") or e["v"])
        elif k == "index":
            s = "%s[_%d]" % (s, e["l"])
        elif k == "cindex":
            s = "%s[%s%d of %d]" % (s, "-" if e["from_end"] else "", e["off"], e["min"])
        elif k == "subslice":
            s = "%s[%d..%s%d]" % (s, e["from"], "-" if e["from_end"] else "", e["to"])
        else:
            s = "%s.?%s" % (s, e.get("dbg"))
    return s


def fmt_op(o):
    if o is None:
        return "?"
    k = o["k"]
    if k in ("copy", "move"):
        return ("move " if k == "move" else "") + fmt_place(o["place"])
    if k == "const":
        if "fn" in o:
            return "fn:" + callee_name(o["fn"])
        return o["val"]
    return "?%s" % o.get("dbg")


def callee_name(fn):
    r = fn.get("resolved")
    if r and r.get("kind") == "item":
        return r["path"]
    return fn["path"]


def fmt_rv(rv):
    k = rv["k"]
    if k == "use":
        return fmt_op(rv["op"])
    if k == "ref":
        return "&%s%s" % ("mut " if rv["bk"] == "mut" else ("fake " if rv["bk"] == "fake" else ""), fmt_place(rv["place"]))
    if k == "rawptr":
        return "&raw %s" % fmt_place(rv["place"])
    if k == "cast":
        return "%s as %s (%s)" % (fmt_op(rv["op"]), rv["ty"], rv["ck"])
    if k == "binop":
        return "%s(%s, %s)" % (rv["op"], fmt_op(rv["a"]), fmt_op(rv["b"]))
    if k == "unop":
        return "%s(%s)" % (rv["op"], fmt_op(rv["a"]))
    if k == "discriminant":
        return "discriminant(%s)" % fmt_place(rv["place"])
    if k == "aggregate":
        ak = rv["ak"]
        ops = ", ".join(fmt_op(o) for o in rv["ops"])
        if ak == "adt":
            return "%s::%s{%s}" % (rv["adt"], rv["variant_name"], ops)
        if ak in ("closure", "coroutine", "coroutine_closure"):
            return "%s<%s>{%s}" % (ak, rv["def"], ops)
        return "%s(%s)" % (ak, ops)
    if k == "repeat":
        return "[%s; %s]" % (fmt_op(rv["op"]), rv["count"])
    if k == "copy_for_deref":
        return "deref_copy %s" % fmt_place(rv["place"])
    return "?%s" % rv.get("dbg")


def fmt_span(sp):
    if not sp:
        return ""
    f = sp["file"]
    return "%s:%d%s" % (f, sp["line"], ("!" + sp.get("outer_macro", "")) if sp.get("exp") else "")


def fmt_term(t):
    k = t["k"]
    if k == "goto":
        return "goto bb%d" % t["t"]
    if k == "switch":
        return "switch %s [%s, else bb%d]" % (fmt_op(t["op"]), ", ".join("%d:bb%d" % (v, b) for v, b in t["targets"]), t["otherwise"])
    if k == "call":
        fn = t["func"].get("fn")
        name = callee_name(fn) if fn else fmt_op(t["func"])
        return "%s = %s(%s) -> %s%s" % (
            fmt_place(t["dest"]), name, ", ".join(fmt_op(a) for a in t["args"]),
            ("bb%d" % t["t"]) if t["t"] is not None else "!",
            (" unwind bb%d" % t["unwind"]) if t.get("unwind") is not None else "")
    if k == "drop":
        return "drop(%s) -> bb%d%s%s" % (fmt_place(t["place"]), t["t"],
                                          (" unwind bb%d" % t["unwind"]) if t.get("unwind") is not None else "",
                                          (" cdrop bb%d" % t["cdrop"]) if t.get("cdrop") is not None else "")
    if k == "assert":
        return "assert(%s == %s, %s) -> bb%d" % (fmt_op(t["cond"]), t["expected"], t["msg"][:60], t["t"])
    if k == "yield":
        return "yield(%s) -> resume bb%d%s" % (fmt_op(t["value"]), t["resume"], (" cdrop bb%d" % t["cdrop"]) if t.get("cdrop") is not None else "")
    if k == "false_edge":
        return "falseEdge -> bb%d (imag bb%d)" % (t["t"], t["imag"])
    if k == "false_unwind":
        return "falseUnwind -> bb%d" % t["t"]
    return k


# ----------------------------------------------------------------- model
class Body:
    def __init__(self, j, facts):
        self.j = j
        self.facts = facts
        self.path = j["def_path"]
        self.kind = j["def_kind"]
        self.blocks = j["blocks"]
        self.locals = j["locals"]
        self.n = len(self.blocks)
        self._succ = None
        self._pred = None
        self._dom = None
        self._defs = None

    def __repr__(self):
        return "<Body %s>" % self.path

    @property
    def name(self):
        return self.j.get("name")

    @property
    def file(self):
        return self.j["span"]["file"]

    @property
    def line(self):
        return self.j["span"]["line"]

    def loc(self, bb=None):
        if bb is None:
            return "%s:%d" % (self.file, self.line)
        return fmt_span(self.blocks[bb]["tspan"])

    # ---- CFG -------------------------------------------------------------
    def term(self, bb):
        return self.blocks[bb]["term"]

    def succ_of_term(self, t, unwind=False, imaginary=False, cdrop=False):
        k = t["k"]
        out = []
        if k == "goto":
            out = [t["t"]]
        elif k == "switch":
            out = [b for _, b in t["targets"]] + [t["otherwise"]]
        elif k in ("call", "drop", "assert", "false_unwind"):
            if t.get("t") is not None:
                out = [t["t"]]
            if unwind and t.get("unwind") is not None:
                out.append(t["unwind"])
            if k == "drop" and cdrop and t.get("cdrop") is not None:
                out.append(t["cdrop"])
        elif k == "yield":
            out = [t["resume"]]
            if cdrop and t.get("cdrop") is not None:
                out.append(t["cdrop"])
        elif k == "false_edge":
            out = [t["t"]]
            if imaginary:
                out.append(t["imag"])
        return out

    @property
    def succ(self):
        """Normal-execution successors (no unwind, no imaginary, no coroutine-drop edges)."""
        if self._succ is None:
            self._succ = [self.succ_of_term(b["term"]) for b in self.blocks]
        return self._succ

    @property
    def pred(self):
        if self._pred is None:
            p = [[] for _ in range(self.n)]
            for i, ss in enumerate(self.succ):
                for s in ss:
                    p[s].append(i)
            self._pred = p
        return self._pred

    def reachable(self, start=0, barrier=(), succ=None):
        succ = succ or self.succ
        seen = set()
        st = [start] if not isinstance(start, (list, set, tuple)) else list(start)
        barrier = set(barrier)
        while st:
            b = st.pop()
            if b in seen or b in barrier:
                continue
            seen.add(b)
            st.extend(succ[b])
        return seen

    def reaches(self, targets, succ=None):
        """Set of blocks from which some block in `targets` is reachable (incl. themselves)."""
        succ = succ or self.succ
        pred = [[] for _ in range(self.n)]
        for i, ss in enumerate(succ):
            for s in ss:
                pred[s].append(i)
        seen = set()
        st = list(targets)
        while st:
            b = st.pop()
            if b in seen:
                continue
            seen.add(b)
            st.extend(pred[b])
        return seen

    @property
    def dom(self):
        """dom[b] = set of blocks dominating b (over normal successors, from bb0)."""
        if self._dom is None:
            reach = self.reachable(0)
            order = self.rpo()
            allb = set(reach)
            dom = {b: set(allb) for b in reach}
            dom[0] = {0}
            changed = True
            while changed:
                changed = False
                for b in order:
                    if b == 0:
                        continue
                    ps = [p for p in self.pred[b] if p in reach]
                    if not ps:
                        continue
                    new = set.intersection(*[dom[p] for p in ps]) | {b}
                    if new != dom[b]:
                        dom[b] = new
                        changed = True
            self._dom = dom
        return self._dom

    def rpo(self):
        seen = set()
        order = []

        def dfs(b):
            stack = [(b, iter(self.succ[b]))]
            seen.add(b)
            while stack:
                node, it = stack[-1]
                adv = False
                for s in it:
                    if s not in seen:
                        seen.add(s)
                        stack.append((s, iter(self.succ[s])))
                        adv = True
                        break
                if not adv:
                    order.append(node)
                    stack.pop()
        dfs(0)
        order.reverse()
        return order

    def dominates(self, a, b):
        return b in self.dom and a in self.dom[b]

    def return_blocks(self):
        return [i for i in self.reachable(0) if self.term(i)["k"] == "return"]

    def back_edges(self):
        return [(a, b) for a in self.reachable(0) for b in self.succ[a] if self.dominates(b, a)]

    # ---- locals of a given type live at a suspension point ------------------
    def guard_locals_at_yields(self, is_guard_ty):
        """[(yield bb, local, def bb)]: locals whose type satisfies is_guard_ty that may be initialised (assigned, not yet
        dropped or moved out) when the coroutine suspends: forward reachability from each definition, cut at drop/move of
        that local. Covers guards obtained by a plain call (`m.lock()`) and by an awaited one (`m.lock().await`)."""
        out = []
        locs = [i for i, l in enumerate(self.j.get("locals", [])) if is_guard_ty(l.get("ty", ""))]
        if not locs:
            return out

        def moves_out(x, l):
            # an operand `move _l` (whole local) anywhere in x
            if isinstance(x, dict):
                if x.get("k") == "move" and isinstance(x.get("place"), dict) and x["place"].get("l") == l and not x["place"].get("p"):
                    return True
                return any(moves_out(v, l) for v in x.values())
            if isinstance(x, list):
                return any(moves_out(v, l) for v in x)
            return False
        for l in locs:
            defs = []       # (bb, stmt index or None for the terminator's destination)
            for bb, blk in enumerate(self.blocks):
                for si, st in enumerate(blk["stmts"]):
                    if st["k"] == "assign" and st["place"]["l"] == l and not st["place"]["p"]:
                        defs.append((bb, si))
                t = blk["term"]
                if t["k"] == "call" and t.get("dest") and t["dest"]["l"] == l and not t["dest"]["p"]:
                    defs.append((bb, None))

            def killed_in(bb, from_si):
                blk = self.blocks[bb]
                for si in range(from_si, len(blk["stmts"])):
                    if moves_out(blk["stmts"][si], l):
                        return True
                t = blk["term"]
                if t["k"] == "drop" and t["place"]["l"] == l and not t["place"]["p"]:
                    return True
                return moves_out({k: v for k, v in t.items() if k in ("args", "op", "value")}, l)
            for (dbb, dsi) in defs:
                seen = set()
                todo = []
                if dsi is None:
                    todo = list(self.succ[dbb])
                elif not killed_in(dbb, dsi + 1):
                    if self.blocks[dbb]["term"]["k"] == "yield":
                        out.append((dbb, l, dbb))
                    todo = list(self.succ[dbb])
                while todo:
                    b = todo.pop()
                    if b in seen:
                        continue
                    seen.add(b)
                    if killed_in(b, 0):
                        continue
                    if self.blocks[b]["term"]["k"] == "yield":
                        out.append((b, l, dbb))
                    todo.extend(self.succ[b])
        return sorted(set(out))

    # ---- calls -----------------------------------------------------------
    def calls(self, reachable_only=True):
        """Yield (bb, term, fn) for every Call terminator with a known FnDef callee."""
        blocks = sorted(self.reachable(0)) if reachable_only else range(self.n)
        for bb in blocks:
            t = self.blocks[bb]["term"]
            if t["k"] == "call":
                yield bb, t, t["func"].get("fn")

    def fn_values(self):
        """fn descriptors of function items passed as *values* to calls (`.map(T::try_from)`)"""
        for bb, t, fn in self.calls():
            for a in t["args"]:
                if a.get("k") == "const" and "fn" in a:
                    yield bb, t, a["fn"]

    def calls_to(self, pred, reachable_only=True):
        out = []
        for bb, t, fn in self.calls(reachable_only):
            if fn is not None and pred(fn):
                out.append((bb, t, fn))
        return out

    def yields(self):
        return [bb for bb in sorted(self.reachable(0)) if self.term(bb)["k"] == "yield"]

    # ---- definitions ------------------------------------------------------
    @property
    def defs(self):
        """local -> list of (bb, idx|'term', kind, payload) definitions of the *whole* local."""
        if self._defs is None:
            d = {}
            for bb, blk in enumerate(self.blocks):
                for i, st in enumerate(blk["stmts"]):
                    if st["k"] == "assign" and not st["place"]["p"]:
                        d.setdefault(st["place"]["l"], []).append((bb, i, "assign", st["rv"]))
                t = blk["term"]
                if t["k"] == "call" and not t["dest"]["p"]:
                    d.setdefault(t["dest"]["l"], []).append((bb, "term", "call", t))
                if t["k"] == "yield" and not t["resume_arg"]["p"]:
                    d.setdefault(t["resume_arg"]["l"], []).append((bb, "term", "yield", t))
            self._defs = d
        return self._defs

    def single_def(self, local):
        ds = self.defs.get(local, [])
        if len(ds) == 1:
            return ds[0]
        return None

    def local_ty(self, l):
        return self.locals[l]["ty"]

    def user_names(self):
        """local -> user variable name (from var_debug_info, whole-local places only)."""
        out = {}
        for v in self.j["var_debug"]:
            val = v["value"]
            if "l" in val and not val["p"]:
                out[val["l"]] = v["name"]
        return out

    # ---- expression reconstruction ----------------------------------------
    def expr_of_operand(self, o, depth=12):
        if o["k"] == "const":
            if "int" in o:
                return ("int", o["int"])
            if "fn" in o:
                return ("fn", callee_name(o["fn"]))
            if "static" in o:
                return ("const", "static " + o["static"], o["ty"])
            if "lit" in o:
                return ("const", o["lit"], o["ty"])
            return ("const", o["val"], o["ty"])
        return self.expr_of_place(o["place"], depth)

    def expr_of_place(self, p, depth=12):
        base = self.expr_of_local(p["l"], depth)
        e = base
        for el in p["p"]:
            k = el["k"]
            if k == "deref":
                # &x then *  cancels
                if e[0] == "ref":
                    e = e[1]
                else:
                    e = ("deref", e)
            elif k == "field":
                e = ("field", e, el.get("name") if el.get("name") is not None else el["i"], el["ty"])
            elif k == "downcast":
                e = ("downcast", e, el.get("name") or el["v"])
            elif k == "index":
                e = ("index", e, self.expr_of_local(el["l"], depth - 1))
            elif k == "cindex":
                e = ("cindex", e, el["off"], el["from_end"])
            else:
                e = ("proj", e, k)
        return e

    def expr_of_local(self, l, depth=12):
        if l != 0 and l <= self.j["arg_count"]:
            return ("arg", l)
        if depth <= 0:
            return ("local", l)
        ds = self.defs.get(l, [])
        # ignore re-definitions that are plain storage; need exactly one def
        if len(ds) != 1:
            return ("local", l)
        bb, idx, kind, payload = ds[0]
        if kind == "assign":
            return self.expr_of_rvalue(payload, depth - 1)
        if kind == "call":
            t = payload
            fn = t["func"].get("fn")
            name = callee_name(fn) if fn else "?"
            return ("call", name, tuple(self.expr_of_operand(a, depth - 1) for a in t["args"]), bb)
        if kind == "yield":
            return ("resume", bb)
        return ("local", l)

    def expr_of_rvalue(self, rv, depth=12):
        k = rv["k"]
        if k == "use":
            return self.expr_of_operand(rv["op"], depth)
        if k == "copy_for_deref":
            return self.expr_of_place(rv["place"], depth)
        if k == "ref":
            return ("ref", self.expr_of_place(rv["place"], depth))
        if k == "cast":
            return ("cast", self.expr_of_operand(rv["op"], depth), rv["ty"])
        if k == "binop":
            return ("binop", rv["op"], self.expr_of_operand(rv["a"], depth), self.expr_of_operand(rv["b"], depth))
        if k == "unop":
            return ("unop", rv["op"], self.expr_of_operand(rv["a"], depth))
        if k == "discriminant":
            return ("discr", self.expr_of_place(rv["place"], depth))
        if k == "aggregate":
            return ("agg", rv["ak"], rv.get("adt"), rv.get("variant_name"),
                    tuple(self.expr_of_operand(o, depth) for o in rv["ops"]))
        return ("rv", k)

    # ---- printing ---------------------------------------------------------
    def dump(self):
        out = []
        out.append("fn %s  [%s]  %s args=%d" % (self.path, self.kind, self.loc(), self.j["arg_count"]))
        names = self.user_names()
        for i, l in enumerate(self.locals):
            out.append("    let _%d: %s%s" % (i, l["ty"], ("  // " + names[i]) if i in names else ""))
        reach = self.reachable(0)
        for bb, blk in enumerate(self.blocks):
            out.append("  bb%d%s%s:" % (bb, " (cleanup)" if blk["cleanup"] else "", "" if bb in reach else " (unreachable-normal)"))
            for st in blk["stmts"]:
                k = st["k"]
                if k == "assign":
                    out.append("      %s = %s   // %s" % (fmt_place(st["place"]), fmt_rv(st["rv"]), fmt_span(st["span"])))
                elif k in ("live", "dead"):
                    pass
                elif k == "fake_read":
                    pass
                elif k == "set_discr":
                    out.append("      discr(%s) = %d" % (fmt_place(st["place"]), st["v"]))
                elif k in ("mention", "ascribe", "nop"):
                    pass
                else:
                    out.append("      ?%s" % st.get("dbg"))
            out.append("      %s   // %s" % (fmt_term(blk["term"]), fmt_span(blk["tspan"])))
        return "\n".join(out)


class Facts:
    def __init__(self, path):
        with open(path) as f:
            self.j = json.load(f)
        self.path = path
        self.crate = self.j["crate"]
        self.bodies = [Body(b, self) for b in self.j["bodies"]]
        self.by_path = {}
        for b in self.bodies:
            self.by_path.setdefault(b.path, b)
        self.adts = {a["path"]: a for a in self.j["adts"]}
        # enums of other crates whose discriminant the crate reads: path -> {discriminant: variant name}
        self.foreign_enums = {e["path"]: {v["discr"]: v["name"] for v in e["variants"]} for e in self.j.get("foreign_enums", [])}
        self.impls = self.j["impls"]
        self.fns = {f["path"]: f for f in self.j["fns"]}
        for sig in self.fns.values():
            # named lifetimes of reference parameters say nothing the rules use: `&'a mut T` is read as `&mut T`
            sig["inputs"] = [re.sub(r"&'[a-z_0-9]+ ", "&", t) for t in sig.get("inputs", [])]
        self._normalise_async_shape()

    def _normalise_async_shape(self):
        """`fn f(..) -> impl Future<Output = T> { async move { .. } }` is the desugaring of `async fn f(..) -> T`: a body that does
        nothing but build its own async block and return it is read as an async fn (the coroutine holds the code in both forms)"""
        for path, sig in self.fns.items():
            out = sig.get("output") or ""
            if sig.get("is_async") or not (out.startswith("impl ") and "Future<Output = " in out):
                continue
            b = self.by_path.get(path)
            if b is None:
                continue
            built, plain = 0, True
            for blk in b.j["blocks"]:
                if blk.get("cleanup"):
                    continue
                if blk["term"]["k"] not in ("drop", "return", "goto"):
                    plain = False
                for st in blk["stmts"]:
                    if st["k"] == "assign":
                        rv = st["rv"]
                        if (st["place"]["l"] == 0 and not st["place"]["p"] and rv.get("k") == "aggregate" and rv.get("ak") == "coroutine"
                                and (rv.get("def") or "").startswith(path + "::{closure")):
                            built += 1
                        else:
                            plain = False
                    elif st["k"] not in ("fake_read", "live", "dead", "nop", "mention", "ascribe"):
                        plain = False
            if plain and built == 1:
                sig["is_async"] = True
                sig["async_written_as"] = "fn returning its own async block"

    def body(self, path):
        return self.by_path.get(path)

    def find_bodies(self, pred):
        return [b for b in self.bodies if pred(b)]

    def bodies_matching(self, regex):
        r = re.compile(regex)
        return [b for b in self.bodies if r.search(b.path)]

    def impl_method(self, trait_suffix, self_ty_pred, method):
        """Bodies implementing `method` of a trait whose path ends with trait_suffix for self types matching."""
        out = []
        for b in self.bodies:
            if b.j.get("name") == method and (b.j.get("impl_trait") or "").endswith(trait_suffix):
                if self_ty_pred is None or self_ty_pred(b.j.get("impl_self") or ""):
                    out.append(b)
        return out

    def children(self, body):
        """Closures / coroutines whose parent is `body` (transitively)."""
        out = []
        frontier = [body.path]
        while frontier:
            p = frontier.pop()
            for b in self.bodies:
                if b.j.get("parent") == p:
                    out.append(b)
                    frontier.append(b.path)
        return out

    def async_body(self, fn_body):
        """For an `async fn` / #[async_trait] method: the coroutine body that holds the code."""
        kids = [b for b in self.children(fn_body) if b.j.get("coroutine_kind")]
        return kids

    def stats(self):
        nb = len(self.bodies)
        nblocks = sum(b.n for b in self.bodies)
        ncalls = sum(1 for b in self.bodies for blk in b.blocks if blk["term"]["k"] == "call")
        return {"bodies": nb, "blocks": nblocks, "call_sites": ncalls, "unsafe_blocks": len(self.j.get("unsafe_blocks", []))}
