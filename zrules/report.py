"""Obligation bookkeeping shared by all rules."""
import hashlib
import re
import json
import os
import time


_MOD = re.compile(r"(?<![A-Za-z0-9_])(?:r#)?[a-z_][a-z0-9_]*::(?=(?:r#)?[A-Za-z_<])")


def norm_key(key):
    """A key with the private module qualifiers of its type and function paths removed (`sub::SubSocketBackend` ->
    `SubSocketBackend`): listed keys (known findings, allow entries) are matched in this form, so that moving or renaming a
    private module neither hides nor duplicates a listed finding. Reported keys themselves stay unnormalised."""
    prev = None
    while prev != key:
        prev = key
        key = _MOD.sub("", key)
    return key


class Obl:
    __slots__ = ("rule", "key", "what", "ok", "loc", "detail", "config")

    def __init__(self, rule, key, what, ok, loc=None, detail=None, config=None):
        self.rule = rule
        self.key = key
        self.what = what
        self.ok = ok
        self.loc = loc
        self.detail = detail
        self.config = config

    def as_json(self):
        d = {"rule": self.rule, "key": self.key, "what": self.what, "status": "discharged" if self.ok else "VIOLATED"}
        if self.loc:
            d["loc"] = self.loc
        if self.detail:
            d["detail"] = self.detail
        if self.config:
            d["config"] = self.config
        return d


class Report:
    def __init__(self, prop, config="default"):
        self.prop = prop
        self.config = config
        self.obls = []
        self.analysed = {}      # free-form counters: functions, paths, call sites
        self.notes = []

    def _add(self, o):
        """Identical re-evaluations of one obligation (same key, verdict and text, e.g. one per path) are
        counted but stored once."""
        sig = (o.key, o.ok, o.what)
        self.evaluations = getattr(self, "evaluations", 0) + 1
        seen = self.__dict__.setdefault("_seen", set())
        if sig in seen:
            return
        seen.add(sig)
        self.obls.append(o)

    def ok(self, rule, key, what, loc=None, detail=None):
        self._add(Obl(rule, key, what, True, loc, detail, self.config))

    def bad(self, rule, key, what, loc=None, detail=None):
        self._add(Obl(rule, key, what, False, loc, detail, self.config))

    def check(self, cond, rule, key, what, loc=None, detail=None):
        (self.ok if cond else self.bad)(rule, key, what, loc, detail)
        return cond

    def floor(self, rule, what, count, minimum):
        """Fail closed: an anchor that matches fewer instances than were confirmed by hand is a violation."""
        key = "%s|floor|%s" % (rule, what)
        if count < minimum:
            self.bad(rule, key, "anchor-missing: %s: found %d, need >= %d" % (what, count, minimum),
                     detail="reason=anchor-missing")
        else:
            self.ok(rule, key, "anchor present: %s (%d >= %d)" % (what, count, minimum))

    def count(self, name, n=1):
        self.analysed[name] = self.analysed.get(name, 0) + n

    def note(self, s):
        self.notes.append(s)

    def merge(self, other):
        self.obls.extend(other.obls)
        self.evaluations = getattr(self, "evaluations", 0) + getattr(other, "evaluations", 0)
        for k, v in other.analysed.items():
            self.analysed[k] = self.analysed.get(k, 0) + v
        self.notes.extend(other.notes)

    @property
    def violations(self):
        return [o for o in self.obls if not o.ok]


def key_hash(key):
    return hashlib.sha1(key.encode()).hexdigest()[:12]
