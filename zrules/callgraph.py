"""Local call graph over the fact file: direct calls, trait-method calls expanded to every local impl,
closure / coroutine construction, fn items passed as values."""
from .facts import callee_name


def build(f):
    by_path = f.by_path
    # trait method -> local impl bodies
    impl_index = {}
    for b in f.bodies:
        tr = b.j.get("impl_trait")
        if tr and b.j.get("name"):
            impl_index.setdefault((tr.split("<")[0], b.j["name"]), []).append(b.path)
    edges = {b.path: set() for b in f.bodies}
    for b in f.bodies:
        out = edges[b.path]
        for blk in b.blocks:
            if blk["cleanup"]:
                continue
            for st in blk["stmts"]:
                if st["k"] != "assign":
                    continue
                rv = st["rv"]
                if rv["k"] == "aggregate" and rv["ak"] in ("closure", "coroutine", "coroutine_closure") and rv.get("def") in by_path:
                    out.add(rv["def"])
                for o in operands_of_rvalue(rv):
                    if o["k"] == "const" and "fn" in o:
                        add_fn(out, o["fn"], by_path, impl_index)
                    if o["k"] == "const" and o.get("def") in by_path:
                        out.add(o["def"])
            t = blk["term"]
            if t["k"] == "call":
                fn = t["func"].get("fn")
                if fn:
                    add_fn(out, fn, by_path, impl_index)
                for o in t["args"]:
                    if o["k"] == "const" and "fn" in o:
                        add_fn(out, o["fn"], by_path, impl_index)
                    if o["k"] == "const" and o.get("def") in by_path:
                        out.add(o["def"])
    return edges


def operands_of_rvalue(rv):
    k = rv["k"]
    if k in ("use", "cast", "repeat"):
        return [rv["op"]]
    if k == "binop":
        return [rv["a"], rv["b"]]
    if k == "unop":
        return [rv["a"]]
    if k == "aggregate":
        return rv["ops"]
    return []


def add_fn(out, fn, by_path, impl_index):
    r = fn.get("resolved")
    if r and r.get("kind") == "item" and r["path"] in by_path:
        out.add(r["path"])
        return
    if fn["path"] in by_path:
        out.add(fn["path"])
    # poll of a local coroutine resolves to `...::{closure#0}`
    if r and r["path"] in by_path:
        out.add(r["path"])
    tr = fn.get("trait")
    if tr:
        # a call on a type parameter of a generic body (`K: Clone`) is supplied by the instantiation, not by this crate's
        # impls: do not fan it out. Virtual (dyn) and unresolved calls on concrete types go to every local impl.
        self_ty = (fn.get("args") or [""])[0]
        is_param = bool(self_ty) and self_ty.replace("_", "").isalnum() and self_ty[0].isupper() and len(self_ty) <= 3
        if is_param and not (r and r.get("kind") == "virtual"):
            return
        if not (r and r.get("kind") == "item" and not r["path"].startswith(tr)):
            for p in impl_index.get((tr.split("<")[0], fn["name"]), []):
                out.add(p)
            # default method bodies of local traits
            dp = "%s::%s" % (tr, fn["name"])
            if dp in by_path:
                out.add(dp)


def reachable(edges, roots):
    seen = set()
    st = list(roots)
    while st:
        x = st.pop()
        if x in seen or x not in edges:
            continue
        seen.add(x)
        st.extend(edges[x])
    return seen


def cycles_within(edges, nodes):
    """Strongly connected components with a cycle, restricted to `nodes` (Tarjan)."""
    nodes = set(nodes)
    index = {}
    low = {}
    onstack = set()
    stack = []
    out = []
    counter = [0]

    def strong(v):
        work = [(v, iter(sorted(x for x in edges.get(v, ()) if x in nodes)))]
        index[v] = low[v] = counter[0]
        counter[0] += 1
        stack.append(v)
        onstack.add(v)
        while work:
            node, it = work[-1]
            adv = False
            for w in it:
                if w not in index:
                    index[w] = low[w] = counter[0]
                    counter[0] += 1
                    stack.append(w)
                    onstack.add(w)
                    work.append((w, iter(sorted(x for x in edges.get(w, ()) if x in nodes))))
                    adv = True
                    break
                elif w in onstack:
                    low[node] = min(low[node], index[w])
            if adv:
                continue
            work.pop()
            if work:
                parent = work[-1][0]
                low[parent] = min(low[parent], low[node])
            if low[node] == index[node]:
                comp = []
                while True:
                    w = stack.pop()
                    onstack.discard(w)
                    comp.append(w)
                    if w == node:
                        break
                if len(comp) > 1 or node in edges.get(node, ()):
                    out.append(sorted(comp))

    for v in sorted(nodes):
        if v not in index:
            strong(v)
    return out
