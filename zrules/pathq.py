"""Queries over enumerated paths (zrules.sym) shared by the socket-level rules."""
from .sym import Sym, show, walk_expr, PathExplosion
from .common import short

_cache = {}

# the message type's own methods are vocabulary the rules speak in (push_front, pop_front, split_off, ...): they stay opaque
# whatever their visibility; every other crate-private helper is looked through, whatever it is called
VOCAB_TYPES = ("message::ZmqMessage::",)
# ... and so are the three operations of the receive queue's state (found by its fields, rules/fq.py), whatever their visibility
QUEUE_VOCAB = ("insert", "remove", "clear")


def default_inline(f, allow_async=False):
    """Virtual inlining policy: crate-private, synchronous, inherent/free helper functions are looked through - whatever they are
    called (`get`, `len` .. of a private wrapper type too) - so that extracting or merging a private helper does not move an anchor
    out of sight. Public functions and trait-impl methods (interface points that rules name) stay opaque."""
    from .sym import PURE_NAMES
    from .rules import fq as _fq
    qpath = _fq.inner_adt(f)[0]
    # def path prefix of the queue-state type's inherent methods (`zeromq::fair_queue::QueueInner::<S, K>` prints its generics)
    qstate = qpath if qpath else None

    def pred(fn):
        if not fn.get("local") or fn.get("trait"):
            return False
        r = fn.get("resolved") or {}
        path = r.get("path") if r.get("kind") == "item" else fn["path"]
        b = f.body(path)
        if b is None or b.j.get("coroutine_kind") or b.kind not in ("Fn", "AssocFn") or b.n > 200:
            return False
        if b.j.get("impl_trait"):
            return False
        if any(v in path for v in VOCAB_TYPES):
            return False
        if qstate is not None and fn["name"] in QUEUE_VOCAB and path.startswith(qstate + "::") and "{" not in path and path.rsplit("::", 1)[-1] == fn["name"]:
            return False        # the receive queue's own insert / remove / clear: named by the rules whether `pub` or `pub(crate)`
        sig = f.fns.get(path)
        if sig is None or (sig.get("is_async") and not allow_async):
            return False
        if sig.get("vis", "").startswith("Public"):
            return False
        return True
    return pred


def scope(f, body, depth=3, allow_async=False):
    """`body`, the private helpers the default policy looks through (transitively), and the closures of all of them:
    the unit a syntactic scan has to cover so that moving code into a private helper does not hide it.
    allow_async: private `async fn` helpers too (their coroutine bodies are children of the helper)."""
    pred = default_inline(f, allow_async)
    out, seen, todo = [], set(), [(body, 0)]
    while todo:
        b, d = todo.pop()
        if b.path in seen:
            continue
        seen.add(b.path)
        out.append(b)
        for k in f.children(b):
            if (k.kind == "Closure" or (allow_async and k.j.get("coroutine_kind") and b is not body)) and k.path not in seen:
                todo.append((k, d))
        if d < depth:
            for bb, t, fn in b.calls():
                if fn and pred(fn):
                    r = fn.get("resolved") or {}
                    cb = f.body(r.get("path") if r.get("kind") == "item" else fn["path"])
                    if cb is not None:
                        todo.append((cb, d + 1))
    return out


def paths(f, body, max_visits=2, cut_at_yield=False, max_paths=50000, inline=True, inline_async=False, **kw):
    """inline_async: private `async fn` helpers are looked through as well - the helper's suspension points appear as yield
    events of the path and its poll returns Ready(value) (the Pending arm is represented by those yields)."""
    key = (id(f), body.path, max_visits, cut_at_yield, inline, inline_async, tuple(sorted(kw)))
    if key not in _cache:
        if inline and "inline" not in kw:
            kw = dict(kw, inline=default_inline(f, allow_async=inline_async), inline_depth=3)
        s = Sym(f, max_visits=max_visits, cut_at_yield=cut_at_yield, max_paths=max_paths, **kw)
        s.inline_async = inline_async
        _cache[key] = s.paths(body)
    return _cache[key]


def paths_keeping(f, body, opaque, max_visits=2):
    """Paths of `body` with its crate-private helpers - async ones too - looked through, except the functions whose def paths are in
    `opaque`: those stay calls a rule can name (the function the rule is about may itself be crate-private)."""
    key = (id(f), body.path, max_visits, "keeping", tuple(sorted(opaque)))
    if key not in _cache:
        base = default_inline(f, allow_async=True)

        def pol(fn):
            r = fn.get("resolved") or {}
            path = r.get("path") if r.get("kind") == "item" else fn["path"]
            return path not in opaque and base(fn)
        s = Sym(f, max_visits=max_visits, max_paths=50000, inline=pol, inline_depth=3)
        s.inline_async = True
        _cache[key] = s.paths(body)
    return _cache[key]


def is_poll(ev):
    """Poll of a future (the callee is a coroutine body `..::{closure#N}` or a Future::poll impl), not the call that made it."""
    return ev.kind == "call" and (ev.name.endswith("}") or short(ev.name) in ("poll", "poll_next", "poll_unpin", "poll_next_unpin"))


def calls(p, *names, upto=None, polls=False):
    evs = p.events if upto is None else p.events[:upto]
    return [(i, e) for i, e in enumerate(evs) if e.kind == "call" and (not names or short(e.name) in names)
            and (polls or not is_poll(e))]


def truth(c):
    if c[0] == "eq":
        return bool(c[1])
    if c == ("notin", (0,)):
        return True
    if c == ("notin", (1,)):
        return False
    return None


def unwrap_try(e):
    """Strip `Try::branch(..)`, IntoFuture and similar pure adaptors around a result expression."""
    while isinstance(e, tuple) and e and e[0] in ("pure", "call") and short(e[1]) in ("branch", "into_future", "from_output") and e[2]:
        e = e[2][0]
    return e


def only_calls(e, allowed):
    """every call in expression e is one of `allowed` (short names): e is *that* value passed through conversions only,
    not something else computed with its help"""
    return all(short(x[1]) in allowed for x in walk_expr(e) if isinstance(x, tuple) and x and x[0] in ("call", "pure"))


def mentions_call(e, pred):
    for x in walk_expr(e):
        if isinstance(x, tuple) and x and x[0] in ("call", "pure") and pred(x):
            return x
    return None


def option_decided(p, pred, upto_ncond=None):
    """1 / 0 if an Option whose expression satisfies pred was decided Some / None on the path (match, if let, is_some..), else None"""
    from .sym import derived_decision
    conds = p.conds if upto_ncond is None else p.conds[:upto_ncond]
    for (e, c, _, _) in conds:
        d = derived_decision(e, c)
        if d is not None:
            e, c = d
        if e[0] == "discr" and c[0] == "eq" and any(pred(x) for x in walk_expr(e[1]) if isinstance(x, tuple) and x):
            return c[1]
        if e[0] == "discr" and c[0] == "notin" and len(c[1]) == 1 and any(pred(x) for x in walk_expr(e[1]) if isinstance(x, tuple) and x):
            return 1 - c[1][0] if c[1][0] in (0, 1) else None
    return None


def ok_decided(p, pred, upto_ncond=None):
    """Was a Result/ControlFlow/Option value whose expression satisfies pred decided Ok/Continue (discr == 0) on the path?"""
    conds = p.conds if upto_ncond is None else p.conds[:upto_ncond]
    for (e, c, _, _) in conds:
        if e[0] == "discr" and c == ("eq", 0):
            inner = unwrap_try(e[1])
            # the decision must be about the value produced by the call (its Ready payload), not about Poll::Ready/Pending
            if inner is e[1] and inner[0] in ("call", "pure") and (inner[1].endswith("}") or short(inner[1]) in ("poll", "poll_next")):
                continue
            while isinstance(inner, tuple) and inner and inner[0] in ("field", "downcast"):
                inner = inner[1]
            if pred(inner):
                return True
    return False


def decided(p, pred, upto_ncond=None):
    """(expr, truth) for every boolean decision whose expression satisfies pred."""
    out = []
    conds = p.conds if upto_ncond is None else p.conds[:upto_ncond]
    for (e, c, _, _) in conds:
        t = truth(c)
        if t is not None and pred(e):
            out.append((e, t))
    return out


def is_poll_of(x, suffix):
    """x is the result of polling the future of (async fn / method) whose def-path contains `suffix`."""
    return isinstance(x, tuple) and x and x[0] in ("call", "pure") and suffix in x[1]


def ret_kind(p):
    """'Ok' / 'Err' / None for a path's return expression (looking through from_residual)."""
    r = p.ret
    if r is None:
        return None
    if r[0] == "agg" and r[3] in ("Ok", "Err"):
        return r[3]
    if r[0] in ("call", "pure") and short(r[1]) == "from_residual":
        return "Err"
    if r[0] in ("call", "pure") and short(r[1]) in ("map", "map_err", "and_then"):
        return None
    return None


def loc(body, ev):
    return body.loc(ev.bb) if ev.fnpath == body.path else "%s bb%d" % (ev.fnpath, ev.bb)
