"""Anchors found by type and role, shared by the rule modules."""
import re
from .facts import callee_name
from .sym import walk_expr

SOCKET_TYPES = ["PAIR", "PUB", "SUB", "REQ", "REP", "DEALER", "ROUTER", "PULL", "PUSH", "XPUB", "XSUB", "STREAM"]

# RFC 28/29/30/31 + ZMTP: which socket types may talk to each other (unordered pairs)
RFC_COMPAT = {
    frozenset(["PAIR"]),
    frozenset(["PUB", "SUB"]), frozenset(["PUB", "XSUB"]), frozenset(["XPUB", "SUB"]), frozenset(["XPUB", "XSUB"]),
    frozenset(["REQ", "REP"]), frozenset(["REQ", "ROUTER"]), frozenset(["DEALER", "REP"]),
    frozenset(["DEALER"]), frozenset(["DEALER", "ROUTER"]), frozenset(["ROUTER"]),
    frozenset(["PUSH", "PULL"]),
}


def rfc_compatible(a, b):
    return frozenset([a, b]) in RFC_COMPAT


def last_seg(path):
    """`a::b::Name<T>` -> `Name`: the type's own (public) name, whatever private module it lives in"""
    p = path.split("<")[0].strip()
    return p.split("::")[-1]


def names_type(path, suffix):
    """does def/type path `path` name the type `suffix` - compared on the last segment only (`r#pub::PubSocket` = `PubSocket`):
    private module names are not part of an anchor"""
    return last_seg(path) == last_seg(suffix)


def fields_by_type(f, struct_suffix, pred):
    """names of the fields of a local struct whose type text satisfies pred (roles by type, never by name)"""
    for p, a in f.adts.items():
        if names_type(p, struct_suffix) and a["kind"] == "Struct":
            direct = [x["name"] for x in a["variants"][0]["fields"] if pred(x["ty"])]
            if direct:
                return direct
            # the fields may be grouped in a private sub-struct of the socket (`route: ReplyRoute { envelope, .. }`): `route.envelope`
            nested = []
            for x in a["variants"][0]["fields"]:
                for p2, a2 in f.adts.items():
                    nm = p2.split("::", 1)[1] if p2.startswith("zeromq::") else p2
                    if a2["kind"] == "Struct" and x["ty"] in (nm, p2) and not a2.get("vis", "").startswith("Public"):
                        nested += ["%s.%s" % (x["name"], y["name"]) for y in a2["variants"][0]["fields"] if pred(y["ty"])]
            return nested
    return []


def type_holds(f, ty, what, depth=3):
    """does type text `ty` mention `what`, directly or through the fields of local structs it names (newtypes, wrappers)"""
    if what in ty:
        return True
    if depth == 0:
        return False
    for p, a in f.adts.items():
        nm = p.split("::", 1)[1] if p.startswith("zeromq::") else p
        if a["kind"] == "Struct" and (nm in ty or p in ty or re.search(r"(?<![A-Za-z0-9_])%s(?![A-Za-z0-9_])" % re.escape(p.split("::")[-1]), ty)):
            if any(type_holds(f, x["ty"], what, depth - 1) for x in a["variants"][0]["fields"]):
                return True
    return False


def is_field(y, path):
    """y is the place `<..>.path` (`path` may be dotted: a field of a private sub-struct or newtype)"""
    return isinstance(y, tuple) and bool(y) and y[0] == "field" and place_text(y).endswith("." + path)


def place_text(e):
    """`.a.b` style text of a place expression (fields only matter for matching)"""
    if not isinstance(e, tuple) or not e:
        return "?"
    if e[0] == "field":
        return place_text(e[1]) + "." + str(e[2])
    if e[0] == "downcast":
        return place_text(e[1]) + "@" + str(e[2])
    if e[0] == "deref":
        return "(*" + place_text(e[1]) + ")"
    if e[0] == "ref":
        return place_text(e[1])
    if e[0] == "arg":
        return "_%d" % e[1]
    return "?"


def store_hits(ev, field_path):
    """is this store event a write to a place ending in `.field_path` - in the function's own terms, or (when it happens inside a
    helper that was looked through, through a reference parameter) in terms of what the reference points to"""
    if ev.kind != "store":
        return False
    sfx = "." + field_path
    if ev.place.endswith(sfx) or ev.place.endswith(sfx + "#discr"):
        return True
    t = getattr(ev, "target", None)
    return t is not None and place_text(t).endswith(sfx)


def trait_impls(f, trait_suffix, method):
    """impl_self -> body of `method` in impls of a trait whose path ends with trait_suffix."""
    out = {}
    for b in f.bodies:
        if b.j.get("name") == method and (b.j.get("impl_trait") or "").endswith(trait_suffix) and b.kind == "AssocFn":
            out[b.j.get("impl_self")] = b
    return out


def coroutine_of(f, fn_body):
    """The async block / async fn body generated for fn_body (first coroutine child)."""
    for b in f.bodies:
        if b.j.get("parent") == fn_body.path and b.j.get("coroutine_kind"):
            return b
    return None


def codec_type(f):
    d = trait_impls(f, "asynchronous_codec::Decoder", "decode")
    return list(d.keys())


def fn_named(f, suffix):
    return [b for b in f.bodies if b.path.endswith(suffix)]


def short(name):
    """Last path segment of a callee name, without generics: `bytes::BufMut::put_u8` -> `put_u8`."""
    if name is None:
        return ""
    n = name
    # strip closure suffixes
    while n.endswith("}"):
        i = n.rfind("::{")
        if i < 0:
            break
        n = n[:i]
    depth = 0
    last = 0
    for i, c in enumerate(n):
        if c == "<":
            depth += 1
        elif c == ">":
            depth -= 1
        elif c == ":" and depth == 0 and i + 1 < len(n) and n[i + 1] == ":":
            last = i + 2
    s = n[last:]
    j = s.find("::<")
    if j >= 0:
        s = s[:j]
    return s


def is_call_to(ev, *names):
    return ev.kind == "call" and short(ev.name) in names


def fn_generic_args(fn):
    return fn.get("args", []) if fn else []


def awaits(body):
    """For every Yield of a coroutine: the poll call it belongs to and the awaited future type."""
    out = []
    for y in body.yields():
        # walk backwards over straight-line predecessors to the poll call
        seen = set()
        frontier = [y]
        poll = None
        while frontier and poll is None:
            b = frontier.pop()
            if b in seen:
                continue
            seen.add(b)
            for p in body.pred[b]:
                t = body.term(p)
                if t["k"] == "call" and len(t["args"]) == 2 and "Context" in (t["args"][1].get("place", {}).get("ty", "")):
                    poll = (p, t)
                    break
                frontier.append(p)
        fut_ty = None
        if poll:
            a0 = poll[1]["args"][0]
            fut_ty = a0.get("place", {}).get("ty")
        out.append({"yield_bb": y, "poll_bb": poll[0] if poll else None, "poll": poll[1] if poll else None,
                    "fut_ty": fut_ty, "loc": body.loc(y),
                    "poll_name": callee_name(poll[1]["func"].get("fn")) if poll and poll[1]["func"].get("fn") else None})
    return out


def expr_mentions_call(e, *names):
    for x in walk_expr(e):
        if isinstance(x, tuple) and x and x[0] in ("call", "pure") and short(x[1]) in names:
            return x
    return None


def strip_casts(e):
    while isinstance(e, tuple) and e and e[0] == "cast":
        e = e[1]
    return e


def len_base(e):
    """If e is (a cast of) LEN(X) for a listed length accessor, return X."""
    e = strip_casts(e)
    if isinstance(e, tuple) and e and e[0] in ("pure", "call") and short(e[1]) in ("len", "remaining"):
        return slice_base(e[2][0])
    if isinstance(e, tuple) and e and e[0] == "unop" and e[1] == "PtrMetadata":
        return slice_base(e[2])
    return None


def slice_base(e):
    """Strip read-only views (as_ref, deref, as_bytes, as_slice, borrow, &) down to the container expression."""
    while True:
        if isinstance(e, tuple) and e and e[0] in ("pure", "call") and short(e[1]) in ("as_ref", "deref", "as_bytes", "as_slice", "borrow", "as_str"):
            e = e[2][0]
            continue
        if isinstance(e, tuple) and e and e[0] == "ref":
            e = e[1]
            continue
        if isinstance(e, tuple) and e and e[0] == "cast":
            e = e[1]
            continue
        # x[..] is x
        if isinstance(e, tuple) and e and e[0] in ("pure", "call") and short(e[1]) == "index" and len(e[2]) == 2:
            r = e[2][1]
            while isinstance(r, tuple) and r and r[0] == "ref":
                r = r[1]
            if (r[0] == "agg" and (r[2] or "").endswith("RangeFull")) or (r[0] == "const" and r[1].replace("const ", "").strip() in ("..", "std::ops::RangeFull", "RangeFull")):
                e = e[2][0]
                continue
        return e


# accessors of the first / last element of a slice, Vec or VecDeque: Some(..) exactly when the container is not empty
END_ACCESSORS = ("first", "last", "split_first", "split_last", "first_mut", "last_mut", "front", "back")


def emptiness(e, c):
    """(subject, is_empty) if the decision (e, c) tests a container for emptiness in any of its normal forms:
    x.is_empty(), x.len() == 0, x.len() != 0, x.len() > 0, x.len() < 1, x.len() >= 1 (either operand order); else None"""
    t = True if (c == ("eq", 1) or c == ("notin", (0,))) else (False if c == ("eq", 0) else None)
    if t is None:
        return None
    while e[0] == "unop" and e[1] == "Not":
        t = not t
        e = e[2]
    if e[0] in ("pure", "call") and short(e[1]) == "is_empty" and len(e[2]) == 1:
        return (e[2][0], t)
    if e[0] == "discr" and e[1][0] in ("pure", "call") and short(e[1][1]) in END_ACCESSORS and len(e[1][2]) == 1 and c in (("eq", 0), ("eq", 1), ("notin", (0,))):
        # `match x.first() { None => .., Some(b) => .. }`: Some exactly when x is not empty
        return (e[1][2][0], c == ("eq", 0))
    if e[0] == "binop" and e[1] in ("Eq", "Ne", "Gt", "Lt", "Ge", "Le"):
        op, a, b = e[1], strip_casts(e[2]), strip_casts(e[3])
        if a[0] == "int" and b[0] != "int":
            a, b = b, a
            op = {"Gt": "Lt", "Lt": "Gt", "Ge": "Le", "Le": "Ge"}.get(op, op)
        if b[0] != "int" or not (a[0] in ("pure", "call") and short(a[1]) in ("len", "remaining") and len(a[2]) == 1):
            return None
        k = b[1]
        table = {("Eq", 0): True, ("Ne", 0): False, ("Gt", 0): False, ("Lt", 1): True, ("Ge", 1): False, ("Le", 0): True}
        if (op, k) not in table:
            return None
        r = table[(op, k)]
        return (a[2][0], r if t else not r)
    return None


def is_empty_bytes(e):
    """e is an empty `Bytes`: Bytes::new(), Bytes::default(), Bytes::from_static(b""), Bytes::from("") ..."""
    if not (isinstance(e, tuple) and e and e[0] in ("pure", "call") and "Bytes" in e[1]):
        return False
    n = short(e[1])
    if n in ("new", "default") and not e[2]:
        return True
    if n in ("from_static", "from", "copy_from_slice") and len(e[2]) == 1:
        from .rules.tables import const_str
        return any(const_str(x) == "" for x in walk_expr(e[2][0]))
    return False


def strip_view(x):
    """the value behind `&x`, `*x`, `x.clone()`, `x.as_ref()`, a cast: still the same value"""
    while isinstance(x, tuple) and x:
        if x[0] in ("ref", "deref", "cast"):
            x = x[1]
        elif x[0] in ("call", "pure") and short(x[1]) in ("clone", "as_ref", "borrow", "to_owned") and not x[1].endswith("}") and len(x[2]) == 1:
            x = x[2][0]
        else:
            break
    return x


def is_some_payload_of(x, opt):
    """x IS the value inside `opt` (its Some payload, through borrows / clones), not merely something computed from it"""
    x = strip_view(x)
    return isinstance(x, tuple) and x and x[0] == "field" and x[1][0] == "downcast" and x[1][2] == "Some" and strip_view(x[1][1]) == strip_view(opt)


def mask_of(e):
    """K if e is a normal form of `(x & K) != 0`; ("inv", K) for `(x & K) == 0`."""
    e = strip_casts(e)
    inv = False
    while e[0] == "unop" and e[1] == "Not":
        inv = not inv
        e = e[2]
    if e[0] == "binop" and e[1] in ("Ne", "Eq", "Gt") and e[3] == ("int", 0) and e[2][0] == "binop" and e[2][1] == "BitAnd" and e[2][3][0] == "int":
        if e[1] == "Eq":
            inv = not inv
        return ("inv", e[2][3][1]) if inv else e[2][3][1]
    if e[0] == "binop" and e[1] == "Eq" and e[2][0] == "binop" and e[2][1] == "BitAnd" and e[2][3][0] == "int" and e[3] == e[2][3]:
        return ("inv", e[3][1]) if inv else e[3][1]
    return None
