"""Replay of breaking patches (seeded/ = written by independent sub-agents, mutants/ = my own) and of
behaviour-preserving variants (benign/) against scratch copies of the *current* /repo.

A scratch copy lives under /tmp, outside /repo and /verif, and is removed straight after use.
Used by the thorough tier (kill matrix in the evidence) and by bin/mutcheck during development."""
import glob
import json
import os
import shutil
import subprocess
import tempfile

from . import extract

VERIF = extract.VERIF


def make_scratch(patch):
    d = tempfile.mkdtemp(prefix="zr-mut-", dir="/tmp")
    src = extract.REPO.rstrip("/") + "/"
    p = subprocess.run(["rsync", "-a", "--exclude", "target", "--exclude", ".git", src, d + "/"], capture_output=True, text=True)
    if p.returncode != 0:
        shutil.rmtree(d, ignore_errors=True)
        raise RuntimeError("rsync failed: " + p.stderr)
    p = subprocess.run(["git", "apply", "--unsafe-paths", "--directory", d, os.path.abspath(patch)], cwd="/", capture_output=True, text=True)
    if p.returncode != 0:
        p = subprocess.run(["patch", "-p1", "-s", "-i", os.path.abspath(patch)], cwd=d, capture_output=True, text=True)
        if p.returncode != 0:
            shutil.rmtree(d, ignore_errors=True)
            return None
    return d


def run_on_patch(patch, props, tier="quick"):
    """Apply `patch` to a scratch copy and run the listed properties' rules there. -> {prop: [violation keys]} or {"error": ...}"""
    from . import check
    d = make_scratch(patch)
    if d is None:
        return {"error": "patch does not apply to the current tree"}
    old = extract.REPO
    out = {}
    try:
        extract.REPO = d
        for prop in props:
            try:
                total, viols, lines = check.run_property(prop, tier, write=False)
                out[prop] = sorted({o.key for o in viols})
            except extract.InfraError as e:
                out[prop] = ["INFRA: " + str(e)[:300]]
                break
    finally:
        extract.REPO = old
        shutil.rmtree(d, ignore_errors=True)
        drop_caches()
    return out


def drop_caches():
    """the per-tree memo tables (enumerated paths, canonical keys, anchors) are keyed by the fact object of one tree: a process
    that replays many patches must let them go, or it keeps every tree's paths alive"""
    from . import pathq, sym
    from .rules import hs
    pathq._cache.clear()
    sym._canon_memo.clear()
    hs._memo.clear()
    hs._drv_memo.clear()
    from .rules import names
    names._memo.clear()
    from .rules import acc
    acc._accepting_memo.clear()
    import gc
    gc.collect()


def corpus(prop):
    """(kind, id, patch) for every stored patch that names this property."""
    items = []
    for kind, root in (("seeded", "seeded"), ("mutant", "mutants"), ("benign", "benign")):
        for meta in sorted(glob.glob(os.path.join(VERIF, root, "*", "meta.json"))):
            m = json.load(open(meta))
            props = m.get("properties") or [m.get("property")]
            if prop in props:
                patch = os.path.join(os.path.dirname(meta), "patch.diff")
                if os.path.exists(patch):
                    items.append((kind, os.path.basename(os.path.dirname(meta)), patch))
    return items


def replay(prop, mod):
    """Thorough tier: kill matrix for this property. Never changes the verdict on /repo itself."""
    rows = []
    for kind, mid, patch in corpus(prop):
        r = run_on_patch(patch, [prop])
        if "error" in r:
            rows.append({"id": mid, "kind": kind, "result": "skipped: " + r["error"]})
            continue
        keys = r.get(prop, [])
        if kind == "benign":
            rows.append({"id": mid, "kind": kind, "result": "silent" if not keys else "FALSE-ALARM", "keys": keys})
        else:
            rows.append({"id": mid, "kind": kind, "result": "detected" if keys else "MISSED", "keys": keys[:6]})
    return {"mutation_replay": rows,
            "mutants_detected": len([r for r in rows if r["result"] == "detected"]),
            "mutants_missed": len([r for r in rows if r["result"] == "MISSED"]),
            "benign_silent": len([r for r in rows if r["result"] == "silent"]),
            "benign_false_alarms": len([r for r in rows if r["result"] == "FALSE-ALARM"])}
