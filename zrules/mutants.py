"""Thorough tier: replay stored breaking patches (seeded/ and mutants/) and benign variants against
scratch copies of the *current* /repo; the property's rules must fire on the former and stay silent on the latter.
Filled in later."""


def replay(prop, mod):
    return {}
