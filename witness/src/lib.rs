//! Compile-fail witnesses (secondary evidence for C07, C08, C15, C17): clauses that the type system of the
//! current /repo itself enforces. Every `compile_fail,E0xxx` block has a compiling twin that differs only by the
//! offending line, so a witness cannot pass merely because a path or a name is wrong.
//! Run with `cargo +nightly test --doc --offline` (error codes are only checked on nightly).

/// C08: two sends cannot be in flight on one socket - `send` needs `&mut self`.
/// ```compile_fail,E0499
/// use zeromq::prelude::*;
/// async fn f(mut s: zeromq::ReqSocket) {
///     let a = s.send("a".into());
///     let b = s.send("b".into()); // second mutable borrow while `a` is alive
///     let _ = a.await; let _ = b.await;
/// }
/// ```
/// Twin:
/// ```no_run
/// use zeromq::prelude::*;
/// async fn f(mut s: zeromq::ReqSocket) {
///     let a = s.send("a".into());
///     let _ = a.await;
///     let b = s.send("b".into());
///     let _ = b.await;
/// }
/// ```
pub struct C08ExclusiveSend;

/// C08: recv and send cannot overlap on one REP socket either.
/// ```compile_fail,E0499
/// use zeromq::prelude::*;
/// async fn f(mut s: zeromq::RepSocket) {
///     let r = s.recv();
///     let w = s.send("x".into());
///     let _ = r.await; let _ = w.await;
/// }
/// ```
/// Twin:
/// ```no_run
/// use zeromq::prelude::*;
/// async fn f(mut s: zeromq::RepSocket) {
///     let r = s.recv();
///     let _ = r.await;
///     let w = s.send("x".into());
///     let _ = w.await;
/// }
/// ```
pub struct C08ExclusiveRecvSend;

/// C17: `close(self)` consumes the socket - no use after close.
/// ```compile_fail,E0382
/// use zeromq::prelude::*;
/// async fn f(s: zeromq::PubSocket) {
///     let _errs = s.close().await;
///     let _ = s.binds_len(); // value used after move
/// }
/// trait BindsLen { fn binds_len(&self) -> usize; }
/// impl BindsLen for zeromq::PubSocket { fn binds_len(&self) -> usize { 0 } }
/// ```
/// Twin:
/// ```no_run
/// use zeromq::prelude::*;
/// async fn f(s: zeromq::PubSocket) {
///     let _ = s.binds_len();
///     let _errs = s.close().await;
/// }
/// trait BindsLen { fn binds_len(&self) -> usize; }
/// impl BindsLen for zeromq::PubSocket { fn binds_len(&self) -> usize { 0 } }
/// ```
pub struct C17CloseConsumes;

/// C15: a send-only socket is rejected as a proxy end (it cannot `recv`).
/// ```compile_fail,E0277
/// async fn f(front: zeromq::PushSocket, back: zeromq::DealerSocket) {
///     let _ = zeromq::proxy(front, back, None).await;
/// }
/// ```
/// Twin:
/// ```no_run
/// async fn f(front: zeromq::RouterSocket, back: zeromq::DealerSocket) {
///     let _ = zeromq::proxy(front, back, None).await;
/// }
/// ```
pub struct C15ProxyNeedsBothDirections;

/// C15: a receive-only socket cannot be installed as capture socket.
/// ```compile_fail,E0277
/// async fn f(front: zeromq::RouterSocket, back: zeromq::DealerSocket, cap: zeromq::PullSocket) {
///     let _ = zeromq::proxy(front, back, Some(Box::new(cap))).await;
/// }
/// ```
/// Twin:
/// ```no_run
/// async fn f(front: zeromq::RouterSocket, back: zeromq::DealerSocket, cap: zeromq::PushSocket) {
///     let _ = zeromq::proxy(front, back, Some(Box::new(cap))).await;
/// }
/// ```
pub struct C15CaptureMustSend;

/// C01/C07: no public way to build a `ZmqMessage` with zero frames out of nothing: the field is private ...
/// ```compile_fail,E0451
/// let _m = zeromq::ZmqMessage { frames: std::collections::VecDeque::new() };
/// ```
/// ... there is no `new()`/`Default` ...
/// ```compile_fail,E0599
/// let _m = zeromq::ZmqMessage::new();
/// ```
/// ```compile_fail,E0277
/// let _m: zeromq::ZmqMessage = Default::default();
/// ```
/// ... and the fallible constructors reject empty input (twin: they exist and type-check).
/// ```no_run
/// use std::convert::TryFrom;
/// let r = zeromq::ZmqMessage::try_from(Vec::<bytes::Bytes>::new());
/// assert!(r.is_err());
/// let m = zeromq::ZmqMessage::from("x");
/// assert_eq!(m.len(), 1);
/// ```
pub struct C07NoEmptyMessage;
