//! zmqfacts: rustc_private driver that dumps the type-checked program of one
//! crate (items + *built* MIR with resolved callees) as one JSON file.
//!
//! Used as RUSTC_WORKSPACE_WRAPPER. Only the crate named in ZMQFACTS_CRATE
//! (default "zeromq") is dumped, to the path in ZMQFACTS_OUT. Everything else is
//! compiled normally. One write per process.
#![feature(rustc_private)]
#![allow(clippy::all)]

extern crate rustc_abi;
extern crate rustc_driver;
extern crate rustc_hir;
extern crate rustc_interface;
extern crate rustc_middle;
extern crate rustc_span;

use rustc_driver::{Callbacks, Compilation};
use rustc_hir::def::DefKind;
use rustc_hir::def_id::{DefId, LocalDefId, LOCAL_CRATE};
use rustc_interface::interface::Compiler;
use rustc_middle::mir::{
    self, AggregateKind, BasicBlock, Body, BorrowKind, Const, Operand, Place, PlaceElem, Rvalue,
    StatementKind, TerminatorKind, UnwindAction,
};
use rustc_middle::ty::print::with_no_trimmed_paths;
use rustc_middle::ty::{self, Instance, Ty, TyCtxt, TypingEnv};
use rustc_span::Span;
use std::fmt::Write as _;

// ---------------------------------------------------------------- tiny JSON
enum J {
    Null,
    B(bool),
    I(i128),
    S(String),
    A(Vec<J>),
    O(Vec<(&'static str, J)>),
}
fn esc(s: &str, out: &mut String) {
    out.push('"');
    for c in s.chars() {
        match c {
            '"' => out.push_str("\\\""),
            '\\' => out.push_str("\\\\"),
            '\n' => out.push_str("\\n"),
            '\r' => out.push_str("\\r"),
            '\t' => out.push_str("\\t"),
            c if (c as u32) < 0x20 => {
                let _ = write!(out, "\\u{:04x}", c as u32);
            }
            c => out.push(c),
        }
    }
    out.push('"');
}
impl J {
    fn write(&self, out: &mut String) {
        match self {
            J::Null => out.push_str("null"),
            J::B(b) => out.push_str(if *b { "true" } else { "false" }),
            J::I(i) => {
                let _ = write!(out, "{}", i);
            }
            J::S(s) => esc(s, out),
            J::A(v) => {
                out.push('[');
                for (i, x) in v.iter().enumerate() {
                    if i > 0 {
                        out.push(',');
                    }
                    x.write(out);
                }
                out.push(']');
            }
            J::O(v) => {
                out.push('{');
                for (i, (k, x)) in v.iter().enumerate() {
                    if i > 0 {
                        out.push(',');
                    }
                    esc(k, out);
                    out.push(':');
                    x.write(out);
                }
                out.push('}');
            }
        }
    }
}
fn s<T: Into<String>>(x: T) -> J {
    J::S(x.into())
}
fn opt_s(x: Option<String>) -> J {
    match x {
        Some(v) => J::S(v),
        None => J::Null,
    }
}
fn bbj(b: BasicBlock) -> J {
    J::I(b.index() as i128)
}
fn opt_bb(b: Option<BasicBlock>) -> J {
    match b {
        Some(b) => bbj(b),
        None => J::Null,
    }
}

// ---------------------------------------------------------------- helpers
struct Cx<'tcx> {
    tcx: TyCtxt<'tcx>,
    krate: String,
    // enums of other crates whose discriminant is read somewhere (`matches!(e.kind(), ErrorKind::BrokenPipe)`):
    // path -> [(variant name, discriminant)]
    foreign_enums: std::cell::RefCell<std::collections::BTreeMap<String, Vec<(String, u128)>>>,
}

impl<'tcx> Cx<'tcx> {
    fn path(&self, did: DefId) -> String {
        let p = with_no_trimmed_paths!(self.tcx.def_path_str(did));
        if did.is_local() {
            // def_path_str omits the crate name for local items; `<T as Tr>::f` forms stay as is
            if p.starts_with('<') {
                p
            } else {
                format!("{}::{}", self.krate, p)
            }
        } else {
            p
        }
    }
    fn ty(&self, t: Ty<'tcx>) -> String {
        with_no_trimmed_paths!(t.to_string())
    }
    fn span(&self, sp: Span) -> J {
        let sm = self.tcx.sess.source_map();
        let exp = sp.from_expansion();
        let mut fields = vec![];
        let cs = sp.source_callsite();
        let lo = sm.lookup_char_pos(cs.lo());
        let hi = sm.lookup_char_pos(cs.hi());
        let fname = match &lo.file.name {
            rustc_span::FileName::Real(r) => match r.local_path() {
                Some(p) => p.to_string_lossy().to_string(),
                None => format!("{:?}", r),
            },
            other => format!("{:?}", other),
        };
        fields.push(("file", s(fname)));
        fields.push(("line", J::I(lo.line as i128)));
        fields.push(("col", J::I(lo.col.0 as i128 + 1)));
        fields.push(("eline", J::I(hi.line as i128)));
        fields.push(("exp", J::B(exp)));
        if exp {
            let ed = sp.ctxt().outer_expn_data();
            let name = match ed.kind {
                rustc_span::ExpnKind::Macro(_, sym) => format!("macro:{}", sym),
                rustc_span::ExpnKind::Desugaring(d) => format!("desugar:{:?}", d),
                rustc_span::ExpnKind::AstPass(p) => format!("astpass:{:?}", p),
                rustc_span::ExpnKind::Root => "root".to_string(),
            };
            fields.push(("expn", s(name)));
            // outermost macro name in the expansion chain
            let mut cur = sp;
            let mut outer = String::new();
            let mut chain = vec![];
            while cur.from_expansion() {
                let d = cur.ctxt().outer_expn_data();
                if let rustc_span::ExpnKind::Macro(_, sym) = d.kind {
                    outer = sym.to_string();
                    chain.push(s(sym.to_string()));
                } else if let rustc_span::ExpnKind::Desugaring(dk) = d.kind {
                    chain.push(s(format!("desugar:{:?}", dk)));
                }
                cur = d.call_site;
            }
            fields.push(("outer_macro", s(outer)));
            fields.push(("chain", J::A(chain)));
        }
        J::O(fields)
    }

    fn place(&self, body: &Body<'tcx>, p: &Place<'tcx>) -> J {
        let mut proj = vec![];
        let mut pty = mir::PlaceTy::from_ty(body.local_decls[p.local].ty);
        for elem in p.projection.iter() {
            let j = match elem {
                PlaceElem::Deref => J::O(vec![("k", s("deref"))]),
                PlaceElem::Field(f, fty) => {
                    // try to name the field
                    let mut name: Option<String> = None;
                    if let ty::Adt(adt, _) = pty.ty.kind() {
                        let vidx = pty.variant_index.unwrap_or(rustc_abi::FIRST_VARIANT);
                        if vidx.index() < adt.variants().len() {
                            let v = adt.variant(vidx);
                            if f.index() < v.fields.len() {
                                name = Some(v.fields[f].name.to_string());
                            }
                        }
                    }
                    J::O(vec![
                        ("k", s("field")),
                        ("i", J::I(f.index() as i128)),
                        ("name", opt_s(name)),
                        ("ty", s(self.ty(fty))),
                    ])
                }
                PlaceElem::Downcast(sym, v) => J::O(vec![
                    ("k", s("downcast")),
                    ("v", J::I(v.index() as i128)),
                    ("name", opt_s(sym.map(|x| x.to_string()))),
                ]),
                PlaceElem::Index(l) => {
                    J::O(vec![("k", s("index")), ("l", J::I(l.index() as i128))])
                }
                PlaceElem::ConstantIndex {
                    offset,
                    min_length,
                    from_end,
                } => J::O(vec![
                    ("k", s("cindex")),
                    ("off", J::I(offset as i128)),
                    ("min", J::I(min_length as i128)),
                    ("from_end", J::B(from_end)),
                ]),
                PlaceElem::Subslice { from, to, from_end } => J::O(vec![
                    ("k", s("subslice")),
                    ("from", J::I(from as i128)),
                    ("to", J::I(to as i128)),
                    ("from_end", J::B(from_end)),
                ]),
                other => J::O(vec![("k", s("other")), ("dbg", s(format!("{:?}", other)))]),
            };
            proj.push(j);
            pty = pty.projection_ty(self.tcx, elem);
        }
        J::O(vec![
            ("l", J::I(p.local.index() as i128)),
            ("p", J::A(proj)),
            ("ty", s(self.ty(pty.ty))),
        ])
    }

    fn constant(&self, owner: DefId, c: &mir::ConstOperand<'tcx>) -> J {
        let ty = c.const_.ty();
        let mut fields = vec![("k", s("const")), ("ty", s(self.ty(ty)))];
        fields.push(("val", s(with_no_trimmed_paths!(format!("{}", c.const_)))));
        if let ty::FnDef(did, args) = ty.kind() {
            fields.push(("fn", self.callee(owner, *did, args)));
        }
        if let ty::Closure(did, _) | ty::Coroutine(did, _) = ty.kind() {
            fields.push(("def", s(self.path(*did))));
        }
        // scalar ints
        let tenv = TypingEnv::post_analysis(self.tcx, owner);
        if let Const::Val(mir::ConstValue::Scalar(rustc_middle::mir::interpret::Scalar::Ptr(ptr, _)), _) = c.const_ {
            let aid = ptr.provenance.alloc_id();
            if let Some(rustc_middle::mir::interpret::GlobalAlloc::Static(sdid)) = self.tcx.try_get_global_alloc(aid) {
                fields.push(("static", s(self.path(sdid))));
            }
        }
        match c.const_ {
            Const::Val(..) | Const::Ty(..) => {
                if ty.is_integral() || ty.is_bool() || ty.is_char() {
                    if let Some(si) = c.const_.try_eval_scalar_int(self.tcx, tenv) {
                        let size = si.size();
                        let v: i128 = if ty.is_signed() {
                            si.to_int(size)
                        } else {
                            si.to_uint(size) as i128
                        };
                        fields.push(("int", J::I(v)));
                    }
                }
            }
            Const::Unevaluated(uv, _) => {
                fields.push(("uneval", s(self.path(uv.def))));
                if let Some(p) = uv.promoted {
                    fields.push(("promoted", J::I(p.index() as i128)));
                } else if ty.is_ref() {
                    // a named constant of reference type (e.g. `const NAME: &str = "Socket-Type"`): evaluate it so the
                    // rules see the literal, not the name
                    let r = std::panic::catch_unwind(std::panic::AssertUnwindSafe(|| {
                        self.tcx.const_eval_resolve(tenv, uv, rustc_span::DUMMY_SP)
                    }));
                    if let Ok(Ok(v)) = r {
                        let lit = Const::Val(v, ty);
                        fields.push(("lit", s(with_no_trimmed_paths!(format!("{}", lit)))));
                    }
                } else if ty.is_integral() || ty.is_bool() {
                    let r = std::panic::catch_unwind(std::panic::AssertUnwindSafe(|| {
                        c.const_.try_eval_scalar_int(self.tcx, tenv)
                    }));
                    if let Ok(Some(si)) = r {
                        let size = si.size();
                        let v: i128 = if ty.is_signed() {
                            si.to_int(size)
                        } else {
                            si.to_uint(size) as i128
                        };
                        fields.push(("int", J::I(v)));
                    }
                }
            }
        }
        J::O(fields)
    }

    fn callee(&self, owner: DefId, did: DefId, args: ty::GenericArgsRef<'tcx>) -> J {
        let tcx = self.tcx;
        let mut fields = vec![
            ("path", s(self.path(did))),
            (
                "args",
                J::A(
                    args.iter()
                        .map(|a| s(with_no_trimmed_paths!(a.to_string())))
                        .collect(),
                ),
            ),
            ("local", J::B(did.is_local())),
        ];
        // item name + trait (if assoc fn of a trait)
        fields.push(("name", s(tcx.item_name(did).to_string())));
        if let Some(tr) = tcx.trait_of_assoc(did) {
            fields.push(("trait", s(self.path(tr))));
        }
        if let Some(imp) = tcx.impl_of_assoc(did) {
            let st = tcx.type_of(imp).instantiate_identity().skip_norm_wip();
            fields.push(("impl_self", s(self.ty(st))));
        }
        let tenv = TypingEnv::post_analysis(tcx, owner);
        let resolved = std::panic::catch_unwind(std::panic::AssertUnwindSafe(|| {
            Instance::try_resolve(tcx, tenv, did, args)
        }));
        match resolved {
            Ok(Ok(Some(inst))) => {
                let rdid = inst.def_id();
                let kind = match inst.def {
                    ty::InstanceKind::Item(_) => "item",
                    ty::InstanceKind::Virtual(..) => "virtual",
                    ty::InstanceKind::Intrinsic(_) => "intrinsic",
                    ty::InstanceKind::FnPtrShim(..) => "fnptr_shim",
                    ty::InstanceKind::ClosureOnceShim { .. } => "closure_once_shim",
                    ty::InstanceKind::DropGlue(..) => "drop_glue",
                    ty::InstanceKind::CloneShim(..) => "clone_shim",
                    _ => "other",
                };
                fields.push((
                    "resolved",
                    J::O(vec![
                        ("path", s(self.path(rdid))),
                        ("kind", s(kind)),
                        ("local", J::B(rdid.is_local())),
                        (
                            "args",
                            J::A(
                                inst.args
                                    .iter()
                                    .map(|a| s(with_no_trimmed_paths!(a.to_string())))
                                    .collect(),
                            ),
                        ),
                    ]),
                ));
            }
            _ => fields.push(("resolved", J::Null)),
        }
        J::O(fields)
    }

    fn operand(&self, owner: DefId, body: &Body<'tcx>, o: &Operand<'tcx>) -> J {
        match o {
            Operand::Copy(p) => J::O(vec![("k", s("copy")), ("place", self.place(body, p))]),
            Operand::Move(p) => J::O(vec![("k", s("move")), ("place", self.place(body, p))]),
            Operand::Constant(c) => self.constant(owner, c),
            #[allow(unreachable_patterns)]
            other => J::O(vec![("k", s("other")), ("dbg", s(format!("{:?}", other)))]),
        }
    }

    fn rvalue(&self, owner: DefId, body: &Body<'tcx>, rv: &Rvalue<'tcx>) -> J {
        match rv {
            Rvalue::Use(o, ..) => J::O(vec![("k", s("use")), ("op", self.operand(owner, body, o))]),
            Rvalue::Repeat(o, n) => J::O(vec![
                ("k", s("repeat")),
                ("op", self.operand(owner, body, o)),
                ("count", s(with_no_trimmed_paths!(n.to_string()))),
            ]),
            Rvalue::Ref(_, bk, p) => {
                let b = match bk {
                    BorrowKind::Shared => "shared",
                    BorrowKind::Fake(_) => "fake",
                    BorrowKind::Mut { .. } => "mut",
                };
                J::O(vec![
                    ("k", s("ref")),
                    ("bk", s(b)),
                    ("place", self.place(body, p)),
                ])
            }
            Rvalue::RawPtr(k, p) => J::O(vec![
                ("k", s("rawptr")),
                ("bk", s(format!("{:?}", k))),
                ("place", self.place(body, p)),
            ]),
            Rvalue::Cast(ck, o, t) => J::O(vec![
                ("k", s("cast")),
                ("ck", s(format!("{:?}", ck))),
                ("op", self.operand(owner, body, o)),
                ("ty", s(self.ty(*t))),
            ]),
            Rvalue::BinaryOp(op, ab) => {
                let (a, b) = &**ab;
                J::O(vec![
                    ("k", s("binop")),
                    ("op", s(format!("{:?}", op))),
                    ("a", self.operand(owner, body, a)),
                    ("b", self.operand(owner, body, b)),
                ])
            }
            Rvalue::UnaryOp(op, a) => J::O(vec![
                ("k", s("unop")),
                ("op", s(format!("{:?}", op))),
                ("a", self.operand(owner, body, a)),
            ]),
            Rvalue::Discriminant(p) => {
                let pty = p.ty(&body.local_decls, self.tcx).ty;
                if let ty::Adt(adt, _) = pty.kind() {
                    if adt.is_enum() && !adt.did().is_local() && adt.variants().len() <= 128 {
                        let key = self.path(adt.did());
                        let mut m = self.foreign_enums.borrow_mut();
                        if !m.contains_key(&key) {
                            let mut vs = vec![];
                            for (vi, d) in adt.discriminants(self.tcx) {
                                vs.push((adt.variant(vi).name.to_string(), d.val));
                            }
                            m.insert(key, vs);
                        }
                    }
                }
                J::O(vec![("k", s("discriminant")), ("place", self.place(body, p))])
            }
            Rvalue::Aggregate(ak, ops) => {
                let mut f = vec![("k", s("aggregate"))];
                match &**ak {
                    AggregateKind::Array(t) => {
                        f.push(("ak", s("array")));
                        f.push(("elem_ty", s(self.ty(*t))));
                    }
                    AggregateKind::Tuple => f.push(("ak", s("tuple"))),
                    AggregateKind::Adt(did, vidx, _args, _, active) => {
                        f.push(("ak", s("adt")));
                        f.push(("adt", s(self.path(*did))));
                        let adt = self.tcx.adt_def(*did);
                        f.push(("variant", J::I(vidx.index() as i128)));
                        f.push(("variant_name", s(adt.variant(*vidx).name.to_string())));
                        f.push((
                            "fields",
                            J::A(
                                adt.variant(*vidx)
                                    .fields
                                    .iter()
                                    .map(|fd| s(fd.name.to_string()))
                                    .collect(),
                            ),
                        ));
                        if let Some(a) = active {
                            f.push(("active", J::I(a.index() as i128)));
                        }
                    }
                    AggregateKind::Closure(did, _) => {
                        f.push(("ak", s("closure")));
                        f.push(("def", s(self.path(*did))));
                    }
                    AggregateKind::Coroutine(did, _) => {
                        f.push(("ak", s("coroutine")));
                        f.push(("def", s(self.path(*did))));
                    }
                    AggregateKind::CoroutineClosure(did, _) => {
                        f.push(("ak", s("coroutine_closure")));
                        f.push(("def", s(self.path(*did))));
                    }
                    AggregateKind::RawPtr(..) => f.push(("ak", s("rawptr"))),
                }
                f.push((
                    "ops",
                    J::A(ops.iter().map(|o| self.operand(owner, body, o)).collect()),
                ));
                J::O(f)
            }
            Rvalue::CopyForDeref(p) => {
                J::O(vec![("k", s("copy_for_deref")), ("place", self.place(body, p))])
            }
            other => J::O(vec![("k", s("other")), ("dbg", s(format!("{:?}", other)))]),
        }
    }

    fn unwind(&self, u: &UnwindAction) -> J {
        match u {
            UnwindAction::Cleanup(b) => bbj(*b),
            _ => J::Null,
        }
    }

    fn body(&self, def: LocalDefId, body: &Body<'tcx>, promoted: Option<usize>) -> J {
        let tcx = self.tcx;
        let owner = def.to_def_id();
        let mut f: Vec<(&'static str, J)> = vec![];
        f.push(("def_path", s(self.path(owner))));
        f.push(("def_kind", s(format!("{:?}", tcx.def_kind(owner)))));
        if let Some(p) = promoted {
            f.push(("promoted", J::I(p as i128)));
        }
        let parent = tcx.opt_local_parent(def);
        let is_closure_like = matches!(
            tcx.def_kind(owner),
            DefKind::Closure | DefKind::InlineConst | DefKind::AnonConst
        );
        if is_closure_like {
            if let Some(p) = parent {
                f.push(("parent", s(self.path(p.to_def_id()))));
            }
        }
        if let Some(ck) = tcx.coroutine_kind(owner) {
            f.push(("coroutine_kind", s(format!("{:?}", ck))));
        }
        // enclosing impl / trait
        if matches!(tcx.def_kind(owner), DefKind::AssocFn | DefKind::AssocConst { .. }) {
            if let Some(imp) = tcx.impl_of_assoc(owner) {
                let st = tcx.type_of(imp).instantiate_identity().skip_norm_wip();
                f.push(("impl_self", s(self.ty(st))));
                if let Some(tr) = tcx.impl_opt_trait_ref(imp) {
                    let tr = tr.instantiate_identity().skip_norm_wip();
                    f.push(("impl_trait", s(self.path(tr.def_id))));
                    f.push(("impl_trait_ref", s(with_no_trimmed_paths!(tr.to_string()))));
                }
            }
            if let Some(tr) = tcx.trait_of_assoc(owner) {
                f.push(("in_trait", s(self.path(tr))));
            }
            f.push(("name", s(tcx.item_name(owner).to_string())));
        } else if matches!(tcx.def_kind(owner), DefKind::Fn | DefKind::Const { .. } | DefKind::Static { .. }) {
            f.push(("name", s(tcx.item_name(owner).to_string())));
        }
        f.push(("span", self.span(body.span)));
        f.push(("arg_count", J::I(body.arg_count as i128)));
        // locals
        let mut locals = vec![];
        for (_l, d) in body.local_decls.iter_enumerated() {
            locals.push(J::O(vec![
                ("ty", s(self.ty(d.ty))),
                ("mut", J::B(d.mutability.is_mut())),
                ("user", J::B(matches!(d.local_info, mir::ClearCrossCrate::Set(_)) && d.is_user_variable())),
                ("span", self.span(d.source_info.span)),
            ]));
        }
        f.push(("locals", J::A(locals)));
        // debug info
        let mut dbg = vec![];
        for v in body.var_debug_info.iter() {
            let val = match &v.value {
                mir::VarDebugInfoContents::Place(p) => self.place(body, p),
                mir::VarDebugInfoContents::Const(c) => self.constant(owner, c),
            };
            dbg.push(J::O(vec![
                ("name", s(v.name.to_string())),
                ("value", val),
                (
                    "arg",
                    match v.argument_index {
                        Some(i) => J::I(i as i128),
                        None => J::Null,
                    },
                ),
            ]));
        }
        f.push(("var_debug", J::A(dbg)));
        // blocks
        let mut blocks = vec![];
        for (_bb, data) in body.basic_blocks.iter_enumerated() {
            let mut stmts = vec![];
            for st in data.statements.iter() {
                let j = match &st.kind {
                    StatementKind::Assign(b) => {
                        let (p, rv) = &**b;
                        J::O(vec![
                            ("k", s("assign")),
                            ("place", self.place(body, p)),
                            ("rv", self.rvalue(owner, body, rv)),
                            ("span", self.span(st.source_info.span)),
                        ])
                    }
                    StatementKind::StorageLive(l) => {
                        J::O(vec![("k", s("live")), ("l", J::I(l.index() as i128))])
                    }
                    StatementKind::StorageDead(l) => {
                        J::O(vec![("k", s("dead")), ("l", J::I(l.index() as i128))])
                    }
                    StatementKind::FakeRead(b) => {
                        let (cause, p) = &**b;
                        J::O(vec![
                            ("k", s("fake_read")),
                            ("cause", s(format!("{:?}", cause))),
                            ("place", self.place(body, p)),
                        ])
                    }
                    StatementKind::SetDiscriminant {
                        place,
                        variant_index,
                    } => J::O(vec![
                        ("k", s("set_discr")),
                        ("place", self.place(body, place)),
                        ("v", J::I(variant_index.index() as i128)),
                    ]),
                    StatementKind::PlaceMention(p) => {
                        J::O(vec![("k", s("mention")), ("place", self.place(body, p))])
                    }
                    StatementKind::AscribeUserType(..) => J::O(vec![("k", s("ascribe"))]),
                    StatementKind::Nop => J::O(vec![("k", s("nop"))]),
                    other => J::O(vec![("k", s("other")), ("dbg", s(format!("{:?}", other)))]),
                };
                stmts.push(j);
            }
            let term = data.terminator();
            let tspan = self.span(term.source_info.span);
            let tj = match &term.kind {
                TerminatorKind::Goto { target } => {
                    J::O(vec![("k", s("goto")), ("t", bbj(*target))])
                }
                TerminatorKind::SwitchInt { discr, targets } => {
                    let mut ts = vec![];
                    for (v, b) in targets.iter() {
                        ts.push(J::A(vec![J::I(v as i128), bbj(b)]));
                    }
                    J::O(vec![
                        ("k", s("switch")),
                        ("op", self.operand(owner, body, discr)),
                        ("targets", J::A(ts)),
                        ("otherwise", bbj(targets.otherwise())),
                    ])
                }
                TerminatorKind::UnwindResume => J::O(vec![("k", s("resume"))]),
                TerminatorKind::UnwindTerminate(_) => J::O(vec![("k", s("terminate"))]),
                TerminatorKind::Return => J::O(vec![("k", s("return"))]),
                TerminatorKind::Unreachable => J::O(vec![("k", s("unreachable"))]),
                TerminatorKind::Drop {
                    place,
                    target,
                    unwind,
                    drop,
                    ..
                } => J::O(vec![
                    ("k", s("drop")),
                    ("place", self.place(body, place)),
                    ("t", bbj(*target)),
                    ("unwind", self.unwind(unwind)),
                    ("cdrop", opt_bb(*drop)),
                ]),
                TerminatorKind::Call {
                    func,
                    args,
                    destination,
                    target,
                    unwind,
                    fn_span,
                    ..
                } => {
                    let mut cf = vec![("k", s("call"))];
                    cf.push(("func", self.operand(owner, body, func)));
                    cf.push((
                        "args",
                        J::A(
                            args.iter()
                                .map(|a| self.operand(owner, body, &a.node))
                                .collect(),
                        ),
                    ));
                    cf.push(("dest", self.place(body, destination)));
                    cf.push(("t", opt_bb(*target)));
                    cf.push(("unwind", self.unwind(unwind)));
                    cf.push(("fn_span", self.span(*fn_span)));
                    J::O(cf)
                }
                TerminatorKind::Assert {
                    cond,
                    expected,
                    msg,
                    target,
                    unwind,
                } => J::O(vec![
                    ("k", s("assert")),
                    ("cond", self.operand(owner, body, cond)),
                    ("expected", J::B(*expected)),
                    ("msg", s(format!("{:?}", msg))),
                    ("t", bbj(*target)),
                    ("unwind", self.unwind(unwind)),
                ]),
                TerminatorKind::Yield {
                    value,
                    resume,
                    resume_arg,
                    drop,
                } => J::O(vec![
                    ("k", s("yield")),
                    ("value", self.operand(owner, body, value)),
                    ("resume", bbj(*resume)),
                    ("resume_arg", self.place(body, resume_arg)),
                    ("cdrop", opt_bb(*drop)),
                ]),
                TerminatorKind::CoroutineDrop => J::O(vec![("k", s("coroutine_drop"))]),
                TerminatorKind::FalseEdge {
                    real_target,
                    imaginary_target,
                } => J::O(vec![
                    ("k", s("false_edge")),
                    ("t", bbj(*real_target)),
                    ("imag", bbj(*imaginary_target)),
                ]),
                TerminatorKind::FalseUnwind {
                    real_target,
                    unwind,
                } => J::O(vec![
                    ("k", s("false_unwind")),
                    ("t", bbj(*real_target)),
                    ("unwind", self.unwind(unwind)),
                ]),
                other => J::O(vec![("k", s("other")), ("dbg", s(format!("{:?}", other)))]),
            };
            blocks.push(J::O(vec![
                ("stmts", J::A(stmts)),
                ("term", tj),
                ("tspan", tspan),
                ("cleanup", J::B(data.is_cleanup)),
            ]));
        }
        f.push(("blocks", J::A(blocks)));
        J::O(f)
    }

    fn items(&self) -> (J, J, J) {
        let tcx = self.tcx;
        let mut adts = vec![];
        let mut impls = vec![];
        let mut fns = vec![];
        for ldid in tcx.hir_crate_items(()).definitions() {
            let did = ldid.to_def_id();
            match tcx.def_kind(did) {
                DefKind::Struct | DefKind::Enum | DefKind::Union => {
                    let adt = tcx.adt_def(did);
                    let mut variants = vec![];
                    let discrs: Vec<(usize, u128)> = if adt.is_enum() {
                        adt.discriminants(tcx)
                            .map(|(i, d)| (i.index(), d.val))
                            .collect()
                    } else {
                        vec![]
                    };
                    for (vi, v) in adt.variants().iter_enumerated() {
                        let mut flds = vec![];
                        for fd in v.fields.iter() {
                            let fty = tcx.type_of(fd.did).instantiate_identity().skip_norm_wip();
                            flds.push(J::O(vec![
                                ("name", s(fd.name.to_string())),
                                ("ty", s(self.ty(fty))),
                                ("vis", s(format!("{:?}", fd.vis))),
                            ]));
                        }
                        let d = discrs
                            .iter()
                            .find(|(i, _)| *i == vi.index())
                            .map(|(_, d)| J::I(*d as i128))
                            .unwrap_or(J::Null);
                        variants.push(J::O(vec![
                            ("name", s(v.name.to_string())),
                            ("discr", d),
                            ("fields", J::A(flds)),
                        ]));
                    }
                    adts.push(J::O(vec![
                        ("path", s(self.path(did))),
                        ("kind", s(format!("{:?}", tcx.def_kind(did)))),
                        ("vis", s(format!("{:?}", tcx.visibility(did)))),
                        ("variants", J::A(variants)),
                        ("span", self.span(tcx.def_span(did))),
                    ]));
                }
                DefKind::Impl { of_trait } => {
                    let st = tcx.type_of(did).instantiate_identity().skip_norm_wip();
                    let mut f = vec![
                        ("path", s(self.path(did))),
                        ("self_ty", s(self.ty(st))),
                        ("span", self.span(tcx.def_span(did))),
                    ];
                    if of_trait {
                        if let Some(tr) = tcx.impl_opt_trait_ref(did) {
                            let tr = tr.instantiate_identity().skip_norm_wip();
                            f.push(("trait", s(self.path(tr.def_id))));
                            f.push(("trait_ref", s(with_no_trimmed_paths!(tr.to_string()))));
                        }
                    }
                    let mut items = vec![];
                    for ai in tcx.associated_items(did).in_definition_order() {
                        items.push(J::O(vec![
                            ("name", s(ai.name().to_string())),
                            ("path", s(self.path(ai.def_id))),
                            ("kind", s(format!("{:?}", ai.kind))),
                        ]));
                    }
                    f.push(("items", J::A(items)));
                    impls.push(J::O(f));
                }
                DefKind::Fn | DefKind::AssocFn => {
                    let sig = tcx.fn_sig(did).instantiate_identity().skip_norm_wip();
                    let sig = sig.skip_binder();
                    let mut f = vec![
                        ("path", s(self.path(did))),
                        ("name", s(tcx.item_name(did).to_string())),
                        ("vis", s(format!("{:?}", tcx.visibility(did)))),
                        (
                            "inputs",
                            J::A(sig.inputs().iter().map(|t| s(self.ty(*t))).collect()),
                        ),
                        ("output", s(self.ty(sig.output()))),
                        ("span", self.span(tcx.def_span(did))),
                        ("is_async", J::B(tcx.asyncness(did).is_async())),
                    ];
                    if let Some(imp) = tcx.impl_of_assoc(did) {
                        let st = tcx.type_of(imp).instantiate_identity().skip_norm_wip();
                        f.push(("impl_self", s(self.ty(st))));
                        if let Some(tr) = tcx.impl_opt_trait_ref(imp) {
                            let tr = tr.instantiate_identity().skip_norm_wip();
                            f.push(("impl_trait", s(self.path(tr.def_id))));
                        }
                    }
                    if let Some(tr) = tcx.trait_of_assoc(did) {
                        f.push(("in_trait", s(self.path(tr))));
                    }
                    fns.push(J::O(f));
                }
                _ => {}
            }
        }
        (J::A(adts), J::A(impls), J::A(fns))
    }
}

struct Cb {
    out: Option<String>,
    krate: String,
}

impl Callbacks for Cb {
    fn after_expansion<'tcx>(&mut self, _c: &Compiler, tcx: TyCtxt<'tcx>) -> Compilation {
        let name = tcx.crate_name(LOCAL_CRATE).to_string();
        if name != self.krate {
            return Compilation::Continue;
        }
        let Some(out_path) = self.out.clone() else {
            return Compilation::Continue;
        };
        // skip build scripts / test harness variants unless asked
        let cx = Cx {
            tcx,
            krate: name.clone(),
            foreign_enums: Default::default(),
        };
        // phase 1: clone every built body before any other query can steal it.
        // Const-like bodies first: building one body can const-evaluate another
        // (array lengths), which steals that one's built MIR; fall back to the
        // CTFE MIR for those.
        let mut cloned: Vec<(LocalDefId, Body<'tcx>)> = vec![];
        let mut missing: Vec<J> = vec![];
        let owners: Vec<LocalDefId> = tcx.hir_body_owners().collect();
        let is_const_like = |d: LocalDefId| {
            matches!(
                tcx.def_kind(d.to_def_id()),
                DefKind::Const { .. }
                    | DefKind::AssocConst { .. }
                    | DefKind::AnonConst
                    | DefKind::InlineConst
                    | DefKind::Static { .. }
            )
        };
        for pass in 0..2 {
            for &def in owners.iter() {
                if (pass == 0) != is_const_like(def) {
                    continue;
                }
                let built = tcx.mir_built(def);
                if !built.is_stolen() {
                    let body: Body<'tcx> = built.borrow().clone();
                    cloned.push((def, body));
                } else if is_const_like(def) {
                    let body: Body<'tcx> = tcx.mir_for_ctfe(def.to_def_id()).clone();
                    cloned.push((def, body));
                } else {
                    missing.push(s(cx.path(def.to_def_id())));
                }
            }
        }
        // user-written `unsafe` blocks (the crate denies unsafe_code; the rules' ownership arguments assume there are none)
        let mut uf = UnsafeFinder { found: vec![] };
        for &def in owners.iter() {
            let hb = tcx.hir_body_owned_by(def);
            rustc_hir::intravisit::Visitor::visit_body(&mut uf, hb);
        }
        let unsafe_blocks: Vec<J> = uf.found.iter().map(|sp| cx.span(*sp)).collect();
        // phase 2: serialise
        let mut bodies = vec![];
        for (def, body) in cloned.iter() {
            bodies.push(cx.body(*def, body, None));
        }
        let (adts, impls, fns) = cx.items();
        let cfgs: Vec<J> = std::env::args()
            .collect::<Vec<_>>()
            .windows(2)
            .filter(|w| w[0] == "--cfg")
            .map(|w| s(w[1].clone()))
            .collect();
        let is_test = std::env::args().any(|a| a == "--test");
        let root = J::O(vec![
            ("crate", s(name)),
            ("cfg", J::A(cfgs)),
            ("is_test", J::B(is_test)),
            ("rustc", s(option_env!("CFG_VERSION").unwrap_or("nightly"))),
            ("unsafe_blocks", J::A(unsafe_blocks)),
            ("adts", adts),
            ("foreign_enums", J::A(cx.foreign_enums.borrow().iter().map(|(p, vs)| J::O(vec![
                ("path", s(p.clone())),
                ("variants", J::A(vs.iter().map(|(n, d)| J::O(vec![("name", s(n.clone())), ("discr", J::I(*d as i128))])).collect())),
            ])).collect())),
            ("impls", impls),
            ("fns", fns),
            ("bodies", J::A(bodies)),
            ("missing_bodies", J::A(missing)),
        ]);
        let mut out = String::with_capacity(64 << 20);
        root.write(&mut out);
        let tmp = format!("{}.tmp.{}", out_path, std::process::id());
        std::fs::write(&tmp, out).expect("zmqfacts: cannot write facts");
        std::fs::rename(&tmp, &out_path).expect("zmqfacts: cannot rename facts");
        Compilation::Continue
    }
}

struct UnsafeFinder {
    found: Vec<Span>,
}
impl<'tcx> rustc_hir::intravisit::Visitor<'tcx> for UnsafeFinder {
    fn visit_block(&mut self, b: &'tcx rustc_hir::Block<'tcx>) {
        if let rustc_hir::BlockCheckMode::UnsafeBlock(rustc_hir::UnsafeSource::UserProvided) = b.rules {
            if !b.span.from_expansion() {
                self.found.push(b.span);
            }
        }
        rustc_hir::intravisit::walk_block(self, b);
    }
}

fn main() {
    let mut args: Vec<String> = std::env::args().collect();
    // RUSTC_WORKSPACE_WRAPPER: argv[1] is the path of the real rustc
    if args.len() > 1 && (args[1].ends_with("rustc") || args[1].contains("/rustc")) {
        args.remove(1);
    }
    let krate = std::env::var("ZMQFACTS_CRATE").unwrap_or_else(|_| "zeromq".to_string());
    let out = std::env::var("ZMQFACTS_OUT").ok();
    let mut cb = Cb { out, krate };
    rustc_driver::run_compiler(&args, &mut cb);
}
