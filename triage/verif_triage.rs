//! Executable demonstrations of suspected defects (triage).
//!
//! Every test asserts the DESIRED behaviour, so it FAILS on the current code
//! and should PASS once the corresponding defect is repaired.
//!
//! Run all:
//!   CARGO_TARGET_DIR=/tmp/triage/target cargo test --offline --lib verif_triage -- --test-threads 1 --nocapture
//!
//! Tests that would kill the test process (allocation failure abort, stack
//! overflow) re-execute the test binary as a child process (env var
//! `VERIF_TRIAGE_CHILD`) and the parent asserts that the child exited
//! successfully, so none of the tests here take the test binary down.
#![allow(clippy::all)]

use crate::codec::{FramedIo, Message, ZmqCodec, ZmqCommand};
use crate::{
    DealerSocket, RepSocket, ReqSocket, Socket, SocketRecv, SocketSend, SocketType, SubSocket,
    ZmqError, ZmqMessage,
};

use asynchronous_codec::Decoder;
use bytes::{Bytes, BytesMut};
use std::convert::TryFrom;
use std::panic::{catch_unwind, AssertUnwindSafe};
use std::time::Duration;
use tokio::io::{AsyncRead, AsyncReadExt, AsyncWrite, AsyncWriteExt};
use tokio::net::{TcpListener, TcpStream};
use tokio::time::timeout;

// ---------------------------------------------------------------------------
// helpers
// ---------------------------------------------------------------------------

const CHILD_ENV: &str = "VERIF_TRIAGE_CHILD";

/// A valid ZMTP 3.0 NULL greeting.
fn greeting_bytes() -> [u8; 64] {
    let mut g = [0u8; 64];
    g[0] = 0xFF;
    g[9] = 0x7F;
    g[10] = 3;
    g[11] = 0;
    g[12..16].copy_from_slice(b"NULL");
    g
}

/// A READY command frame announcing `socket_type`.
fn ready_frame(socket_type: &str) -> Vec<u8> {
    let mut body = vec![5u8];
    body.extend_from_slice(b"READY");
    body.push(11);
    body.extend_from_slice(b"Socket-Type");
    body.extend_from_slice(&(socket_type.len() as u32).to_be_bytes());
    body.extend_from_slice(socket_type.as_bytes());
    let mut frame = vec![0x04, body.len() as u8];
    frame.extend_from_slice(&body);
    frame
}

/// Reads one ZMTP frame: returns (flags, body).
async fn read_frame<S: AsyncRead + Unpin>(s: &mut S) -> std::io::Result<(u8, Vec<u8>)> {
    let flags = s.read_u8().await?;
    let len = if flags & 0x02 != 0 {
        s.read_u64().await? as usize
    } else {
        s.read_u8().await? as usize
    };
    let mut body = vec![0u8; len];
    s.read_exact(&mut body).await?;
    Ok((flags, body))
}

/// Scripted peer side of the ZMTP handshake: write greeting + READY, then
/// consume the library's greeting and READY.
async fn scripted_handshake<S: AsyncRead + AsyncWrite + Unpin>(s: &mut S, socket_type: &str) {
    s.write_all(&greeting_bytes()).await.unwrap();
    s.write_all(&ready_frame(socket_type)).await.unwrap();
    s.flush().await.unwrap();
    let mut g = [0u8; 64];
    s.read_exact(&mut g).await.unwrap();
    assert_eq!(g[0], 0xFF);
    let (flags, body) = read_frame(s).await.unwrap();
    assert!(flags & 0x04 != 0, "expected READY command from library");
    assert_eq!(&body[1..6], b"READY");
}

/// Binds a raw TCP listener on loopback that will accept ONE connection and
/// perform the scripted handshake announcing `socket_type`. Returns the
/// `tcp://` endpoint and a handle yielding the raw stream after the handshake.
async fn scripted_listener(
    socket_type: &'static str,
) -> (String, tokio::task::JoinHandle<TcpStream>) {
    let l = TcpListener::bind("127.0.0.1:0").await.unwrap();
    let port = l.local_addr().unwrap().port();
    let h = tokio::spawn(async move {
        let (mut s, _) = l.accept().await.unwrap();
        s.set_nodelay(true).unwrap();
        scripted_handshake(&mut s, socket_type).await;
        s
    });
    (format!("tcp://127.0.0.1:{port}"), h)
}

/// Same construction as `transport::make_framed` (which is private to
/// `transport`).
fn make_framed<T>(stream: T) -> FramedIo
where
    T: tokio::io::AsyncRead + tokio::io::AsyncWrite + Send + Sync + 'static,
{
    use tokio_util::compat::{TokioAsyncReadCompatExt, TokioAsyncWriteCompatExt};
    let (read, write) = tokio::io::split(stream);
    FramedIo::new(Box::new(read.compat()), Box::new(write.compat_write()))
}

/// Close a TCP stream abortively (RST) so that the other side's writes fail.
fn reset(s: TcpStream) {
    s.set_zero_linger().unwrap();
    drop(s);
}

/// Reads everything the peer receives within `dur` and splits it into frames.
async fn drain_frames(s: &mut TcpStream, dur: Duration) -> Vec<(u8, Vec<u8>)> {
    let mut out = vec![];
    let deadline = tokio::time::Instant::now() + dur;
    loop {
        match tokio::time::timeout_at(deadline, read_frame(s)).await {
            Ok(Ok(f)) => out.push(f),
            Ok(Err(_)) => break,
            Err(_) => break,
        }
    }
    out
}

fn describe<T: std::fmt::Debug>(r: &Result<Result<T, ZmqError>, tokio::time::error::Elapsed>) -> String {
    match r {
        Err(_) => "PENDING(timeout)".to_string(),
        Ok(Ok(v)) => format!("Ok({v:?})"),
        Ok(Err(e)) => format!("Err({e:?})"),
    }
}

/// If we are the child process for `name`, returns true (caller runs the
/// dangerous body). Otherwise re-executes this test binary running only
/// `name` with the child env var set, waits (with timeout) and asserts that
/// the child succeeded.
fn in_child_or_spawn(name: &str) -> bool {
    if std::env::var(CHILD_ENV).ok().as_deref() == Some(name) {
        return true;
    }
    use std::io::Read;
    use std::process::{Command, Stdio};
    let exe = std::env::current_exe().unwrap();
    let mut child = Command::new(exe)
        .args([
            &format!("verif_triage::{name}"),
            "--exact",
            "--nocapture",
            "--test-threads",
            "1",
        ])
        .env(CHILD_ENV, name)
        .env("RUST_BACKTRACE", "0")
        .stdout(Stdio::null())
        .stderr(Stdio::piped())
        .spawn()
        .unwrap();
    let start = std::time::Instant::now();
    let status = loop {
        if let Some(st) = child.try_wait().unwrap() {
            break Some(st);
        }
        if start.elapsed() > Duration::from_secs(9) {
            let _ = child.kill();
            let _ = child.wait();
            break None;
        }
        std::thread::sleep(Duration::from_millis(20));
    };
    let mut stderr = String::new();
    if let Some(mut e) = child.stderr.take() {
        let _ = e.read_to_string(&mut stderr);
    }
    let tail: String = stderr
        .lines()
        .filter(|l| !l.trim().is_empty())
        .rev()
        .take(12)
        .collect::<Vec<_>>()
        .into_iter()
        .rev()
        .collect::<Vec<_>>()
        .join("\n    ");
    match status {
        None => panic!("child for {name} hung (>9s) and was killed; stderr tail:\n    {tail}"),
        Some(st) => {
            #[cfg(unix)]
            let sig = {
                use std::os::unix::process::ExitStatusExt;
                st.signal()
            };
            #[cfg(not(unix))]
            let sig: Option<i32> = None;
            assert!(
                st.success(),
                "child process for {name} did not succeed: exit code {:?}, signal {:?}; stderr tail:\n    {tail}",
                st.code(),
                sig
            );
        }
    }
    false
}

fn decode_greeting(codec: &mut ZmqCodec, buf: &mut BytesMut) {
    buf.extend_from_slice(&greeting_bytes());
    match codec.decode(buf) {
        Ok(Some(Message::Greeting(_))) => {}
        other => panic!("greeting did not decode: {other:?}"),
    }
}

// ---------------------------------------------------------------------------
// F03a: unbounded reserve() driven by peer-supplied frame length
// ---------------------------------------------------------------------------

fn f03a_body(len_bytes: [u8; 8]) {
    let mut codec = ZmqCodec::new();
    let mut buf = BytesMut::new();
    decode_greeting(&mut codec, &mut buf);
    buf.extend_from_slice(&[0x02]);
    buf.extend_from_slice(&len_bytes);
    let r = codec.decode(&mut buf);
    eprintln!(
        "F03a: decode -> {:?}, buf.capacity() = {}",
        r.as_ref().map(|o| o.is_some()),
        buf.capacity()
    );
    assert!(
        matches!(r, Ok(None) | Err(_)),
        "decode must yield Ok(None) or Err"
    );
    assert!(
        buf.capacity() < (1 << 20),
        "peer-announced frame length made the decoder reserve {} bytes up front",
        buf.capacity()
    );
}

/// 9 bytes `02 7F FF FF FF FF FF FF FF` (LONG frame, length 2^63-1).
#[test]
fn f03a_huge_frame_len_reserve() {
    if in_child_or_spawn("f03a_huge_frame_len_reserve") {
        f03a_body([0x7F, 0xFF, 0xFF, 0xFF, 0xFF, 0xFF, 0xFF, 0xFF]);
    }
}

/// Same, with a length that the allocator is likely to satisfy (1 GiB of
/// untouched virtual memory): 9 bytes on the wire -> 1 GiB reserved.
#[test]
fn f03a_one_gib_frame_len_reserve() {
    if in_child_or_spawn("f03a_one_gib_frame_len_reserve") {
        f03a_body((1u64 << 30).to_be_bytes());
    }
}

// ---------------------------------------------------------------------------
// F03b: unbounded recursion in decode
// ---------------------------------------------------------------------------

#[test]
fn f03b_decode_recursion_stack_overflow() {
    // N can be overridden (VERIF_F03B_N) to explore where the overflow starts.
    let n: usize = std::env::var("VERIF_F03B_N")
        .ok()
        .and_then(|v| v.parse().ok())
        .unwrap_or(100_000);
    if in_child_or_spawn("f03b_decode_recursion_stack_overflow") {
        #[allow(non_snake_case)]
        let N = n;
        let t = std::thread::Builder::new()
            .stack_size(2 << 20)
            .spawn(move || {
                let mut codec = ZmqCodec::new();
                let mut buf = BytesMut::new();
                decode_greeting(&mut codec, &mut buf);
                for _ in 0..N {
                    buf.extend_from_slice(&[0x01, 0x00]);
                }
                buf.extend_from_slice(&[0x00, 0x00]);
                match codec.decode(&mut buf) {
                    Ok(Some(Message::Message(m))) => {
                        assert_eq!(m.len(), N + 1);
                        assert!(m.iter().all(|f| f.is_empty()));
                    }
                    other => panic!("unexpected decode result {:?}", other.map(|o| o.is_some())),
                }
            })
            .unwrap();
        t.join().unwrap();
    }
}

/// End to end over loopback TCP: is the recursion reachable through
/// `FramedRead`, which calls `decode` after every read of at most 8 KiB (so at
/// most 4096 `01 00` frames = 12288 nested `decode` calls per invocation)?
/// The whole socket runs on a thread with a 2 MiB stack (the default stack
/// size of tokio worker threads and of spawned std threads).
#[test]
fn f03b_e2e_dealer_recv_many_empty_frames() {
    const N: usize = 64 * 1024;
    if in_child_or_spawn("f03b_e2e_dealer_recv_many_empty_frames") {
        let t = std::thread::Builder::new()
            .stack_size(2 << 20)
            .spawn(|| {
                let rt = tokio::runtime::Builder::new_current_thread()
                    .enable_all()
                    .build()
                    .unwrap();
                rt.block_on(async {
                    let mut dealer = DealerSocket::new();
                    let (ep, peer) = scripted_listener("ROUTER").await;
                    dealer.connect(&ep).await.unwrap();
                    let mut peer = peer.await.unwrap();
                    let mut wire = Vec::with_capacity(2 * N + 2);
                    for _ in 0..N {
                        wire.extend_from_slice(&[0x01, 0x00]);
                    }
                    wire.extend_from_slice(&[0x00, 0x00]);
                    peer.write_all(&wire).await.unwrap();
                    peer.flush().await.unwrap();
                    let m = timeout(Duration::from_secs(5), dealer.recv())
                        .await
                        .expect("recv hung")
                        .expect("recv failed");
                    assert_eq!(m.len(), N + 1);
                });
            })
            .unwrap();
        t.join().unwrap();
    }
}

// ---------------------------------------------------------------------------
// F03c: ZmqCommand::try_from panics on short/truncated bodies
// ---------------------------------------------------------------------------

#[test]
fn f03c_command_parse_bounds() {
    let cases: Vec<(&str, Vec<u8>)> = vec![
        ("empty body", vec![]),
        ("name len beyond buffer", vec![5, b'R', b'E']),
        (
            "property-name len beyond buffer",
            vec![5, b'R', b'E', b'A', b'D', b'Y', 10, b'a'],
        ),
        (
            "truncated 4-byte value length",
            vec![5, b'R', b'E', b'A', b'D', b'Y', 1, b'a', 0, 0],
        ),
        (
            "value len beyond buffer",
            vec![5, b'R', b'E', b'A', b'D', b'Y', 1, b'a', 0, 0, 0, 9, b'x'],
        ),
    ];
    let mut failures = vec![];
    for (name, body) in cases {
        let b = Bytes::from(body);
        let r = catch_unwind(AssertUnwindSafe(|| ZmqCommand::try_from(b)));
        match r {
            Err(p) => {
                let msg = p
                    .downcast_ref::<String>()
                    .cloned()
                    .or_else(|| p.downcast_ref::<&str>().map(|s| s.to_string()))
                    .unwrap_or_default();
                failures.push(format!("{name}: PANIC `{msg}`"));
            }
            Ok(Ok(c)) => failures.push(format!("{name}: parsed Ok({c:?}), expected Err")),
            Ok(Err(_)) => {}
        }
    }

    // End to end through the codec: greeting, then command frame `04 00`.
    let r = catch_unwind(AssertUnwindSafe(|| {
        let mut codec = ZmqCodec::new();
        let mut buf = BytesMut::new();
        decode_greeting(&mut codec, &mut buf);
        buf.extend_from_slice(&[0x04, 0x00]);
        codec.decode(&mut buf).map(|o| o.is_some())
    }));
    match r {
        Err(_) => failures.push("codec `04 00`: PANIC".to_string()),
        Ok(Ok(x)) => failures.push(format!("codec `04 00`: Ok(is_some={x}), expected Err")),
        Ok(Err(_)) => {}
    }

    assert!(
        failures.is_empty(),
        "malformed command bodies not rejected cleanly:\n  {}",
        failures.join("\n  ")
    );
}

// ---------------------------------------------------------------------------
// F03d: SocketType::compatible indexes 11x11 table with 12 variants
// ---------------------------------------------------------------------------

#[test]
fn f03d_compatible_total_and_symmetric() {
    use SocketType::*;
    let all = [
        PAIR, PUB, SUB, REQ, REP, DEALER, ROUTER, PULL, PUSH, XPUB, XSUB, STREAM,
    ];
    let mut failures = vec![];
    for a in all {
        for b in all {
            let ab = catch_unwind(|| a.compatible(b));
            let ba = catch_unwind(|| b.compatible(a));
            match (ab, ba) {
                (Ok(x), Ok(y)) => {
                    if x != y {
                        failures.push(format!("{a}.compatible({b})={x} but {b}.compatible({a})={y}"));
                    }
                    if (a == STREAM || b == STREAM) && x {
                        failures.push(format!("{a}.compatible({b}) is true"));
                    }
                }
                (Err(_), _) => failures.push(format!("{a}.compatible({b}) PANICKED")),
                (Ok(_), Err(_)) => {} // reported when the loop reaches (b, a)
            }
        }
    }
    assert!(
        failures.is_empty(),
        "{} of 144 pairs misbehave:\n  {}",
        failures.len(),
        failures.join("\n  ")
    );
}

// ---------------------------------------------------------------------------
// F03e: SubSocketBackend::peer_connected unwrap()s the re-announce write
// ---------------------------------------------------------------------------

/// In-memory, deterministic: the scripted PUB peer completes the handshake and
/// drops its end without reading the re-announced subscriptions. The pipe is
/// tiny and one topic is large, so the re-announce write is still in progress
/// when the peer goes away and fails with BrokenPipe.
#[tokio::test(flavor = "multi_thread", worker_threads = 2)]
async fn f03e_sub_peer_connected_unwrap_duplex() {
    let mut sub = SubSocket::new();
    sub.subscribe("a").await.unwrap();
    let big = "b".repeat(64 * 1024);
    sub.subscribe(&big).await.unwrap();

    let (lib_end, mut peer_end) = tokio::io::duplex(256);
    let peer = tokio::spawn(async move {
        scripted_handshake(&mut peer_end, "PUB").await;
        drop(peer_end);
    });

    let backend = sub.backend();
    let task = tokio::spawn(async move {
        crate::util::peer_connected(make_framed(lib_end), backend)
            .await
            .map(|_| ())
    });
    let joined = timeout(Duration::from_secs(5), task)
        .await
        .expect("peer_connected hung");
    peer.await.unwrap();
    match joined {
        Ok(r) => eprintln!("F03e(duplex): peer_connected returned {r:?}"),
        Err(e) => panic!("peer_connected panicked instead of returning: {e}"),
    }
}

/// Same over real loopback TCP through the public `connect()`. The peer
/// resets the connection right after the handshake; the subscriptions are
/// large enough (16 MiB) that they cannot vanish into socket buffers.
#[tokio::test(flavor = "multi_thread", worker_threads = 2)]
async fn f03e_sub_connect_unwrap_tcp() {
    let mut sub = SubSocket::new();
    sub.subscribe("a").await.unwrap();
    for i in 0..16u8 {
        let mut t = String::with_capacity(1 << 20);
        t.push((b'A' + i) as char);
        while t.len() < (1 << 20) {
            t.push('x');
        }
        sub.subscribe(&t).await.unwrap();
    }
    let (ep, peer) = scripted_listener("PUB").await;
    let killer = tokio::spawn(async move {
        let s = peer.await.unwrap();
        reset(s);
    });
    let task = tokio::spawn(async move {
        let r = sub.connect(&ep).await;
        (sub, r.map_err(|e| e.to_string()))
    });
    let joined = timeout(Duration::from_secs(8), task)
        .await
        .expect("connect() hung");
    killer.await.unwrap();
    match joined {
        Ok((_sub, r)) => eprintln!("F03e(tcp): connect returned {r:?}"),
        Err(e) => panic!("SubSocket::connect panicked instead of returning: {e}"),
    }
}

// ---------------------------------------------------------------------------
// F07a: REP returns Ok(zero-frame message) for request [id, delimiter]
// ---------------------------------------------------------------------------

#[tokio::test(flavor = "multi_thread", worker_threads = 2)]
async fn f07a_rep_recv_zero_frame_message() {
    let mut rep = RepSocket::new();
    let (ep, peer) = scripted_listener("DEALER").await;
    timeout(Duration::from_secs(5), rep.connect(&ep))
        .await
        .expect("connect hung")
        .unwrap();
    let mut peer = peer.await.unwrap();
    // frames: "id" (MORE), "" (last)
    peer.write_all(&[0x01, 0x02, b'i', b'd', 0x00, 0x00])
        .await
        .unwrap();
    peer.flush().await.unwrap();

    let r = timeout(Duration::from_secs(1), rep.recv()).await;
    eprintln!("F07a: REP recv -> {}", describe(&r));
    if let Ok(Ok(m)) = &r {
        assert!(
            m.len() > 0,
            "REP recv() returned Ok of a ZERO-frame ZmqMessage for request [id, delimiter]"
        );
    }
}

// ---------------------------------------------------------------------------
// F13a: SubSocket::process_subs stops at first failing peer
// ---------------------------------------------------------------------------

#[tokio::test(flavor = "multi_thread", worker_threads = 2)]
async fn f13a_sub_subscribe_stops_at_first_dead_peer() {
    // 16 peers, 8 of them get reset. Iteration order over scc::HashMap is
    // arbitrary; the test can only pass by accident on buggy code if all 8
    // dead peers come after all 8 live ones (1 in 12870).
    const PEERS: usize = 16;
    let mut sub = SubSocket::new();
    let mut streams = vec![];
    for _ in 0..PEERS {
        let (ep, peer) = scripted_listener("PUB").await;
        timeout(Duration::from_secs(5), sub.connect(&ep))
            .await
            .expect("connect hung")
            .unwrap();
        streams.push(peer.await.unwrap());
    }
    let mut live = vec![];
    for (i, s) in streams.into_iter().enumerate() {
        if i % 2 == 0 {
            reset(s);
        } else {
            live.push((i, s));
        }
    }
    // let the RSTs arrive
    tokio::time::sleep(Duration::from_millis(200)).await;

    let r = timeout(Duration::from_secs(5), sub.subscribe("x"))
        .await
        .expect("subscribe hung");
    eprintln!("F13a: subscribe(\"x\") -> {r:?}");

    let mut missed = vec![];
    for (i, s) in live.iter_mut() {
        let frames = drain_frames(s, Duration::from_millis(300)).await;
        if !frames.contains(&(0x00, vec![0x01, b'x'])) {
            missed.push(*i);
        }
    }
    assert!(
        missed.is_empty(),
        "{} of {} LIVE peers never received SUBSCRIBE \"x\" (peer indexes {:?}); subscribe returned {:?}",
        missed.len(),
        live.len(),
        missed,
        r
    );
}

// ---------------------------------------------------------------------------
// F13c: set semantics locally, every call broadcast on the wire
// ---------------------------------------------------------------------------

fn fold_sub_count(frames: &[(u8, Vec<u8>)], topic: &[u8]) -> i64 {
    let mut n = 0;
    for (_flags, body) in frames {
        if body.len() >= 1 && &body[1..] == topic {
            match body[0] {
                1 => n += 1,
                0 => n -= 1,
                _ => {}
            }
        }
    }
    n
}

#[tokio::test(flavor = "multi_thread", worker_threads = 2)]
async fn f13c_sub_duplicate_subscribe_wire_vs_set() {
    let mut sub = SubSocket::new();

    let (ep_a, peer_a) = scripted_listener("PUB").await;
    timeout(Duration::from_secs(5), sub.connect(&ep_a))
        .await
        .expect("connect hung")
        .unwrap();
    let mut a = peer_a.await.unwrap();

    sub.subscribe("t").await.unwrap();
    sub.subscribe("t").await.unwrap();
    sub.unsubscribe("t").await.unwrap();

    let (ep_b, peer_b) = scripted_listener("PUB").await;
    timeout(Duration::from_secs(5), sub.connect(&ep_b))
        .await
        .expect("connect hung")
        .unwrap();
    let mut b = peer_b.await.unwrap();

    let fa = drain_frames(&mut a, Duration::from_millis(300)).await;
    let fb = drain_frames(&mut b, Duration::from_millis(300)).await;
    let ca = fold_sub_count(&fa, b"t");
    let cb = fold_sub_count(&fb, b"t");
    eprintln!("F13c: peer A saw {fa:?} -> count {ca}; peer B saw {fb:?} -> count {cb}");
    assert_eq!(
        ca > 0,
        cb > 0,
        "peers disagree on whether \"t\" is subscribed: A count {ca}, B count {cb}"
    );
}

// ---------------------------------------------------------------------------
// F14a: ReqSocket::recv is not cancel safe (take() before await)
// ---------------------------------------------------------------------------

#[tokio::test(flavor = "multi_thread", worker_threads = 2)]
async fn f14a_req_recv_cancel_loses_request_state() {
    let mut req = ReqSocket::new();
    let (ep, peer) = scripted_listener("REP").await;
    timeout(Duration::from_secs(5), req.connect(&ep))
        .await
        .expect("connect hung")
        .unwrap();
    let mut peer = peer.await.unwrap();

    req.send(ZmqMessage::from("req1")).await.unwrap();
    // peer receives [ "", "req1" ]
    assert_eq!(read_frame(&mut peer).await.unwrap(), (0x01, vec![]));
    assert_eq!(read_frame(&mut peer).await.unwrap(), (0x00, b"req1".to_vec()));

    // recv future is dropped while the peer stays silent
    let r = timeout(Duration::from_millis(50), req.recv()).await;
    assert!(r.is_err(), "peer was silent, recv should have timed out");

    let mut problems = vec![];

    // request 1 is still outstanding: a second send must be refused
    let s2 = timeout(Duration::from_secs(2), req.send(ZmqMessage::from("req2")))
        .await
        .expect("send hung");
    eprintln!("F14a: second send -> {s2:?}");
    match &s2 {
        Err(ZmqError::ReturnToSender { .. }) => {}
        other => problems.push(format!(
            "second send() while req1 outstanding was not refused: {other:?}"
        )),
    }
    let extra = drain_frames(&mut peer, Duration::from_millis(100)).await;
    if !extra.is_empty() {
        problems.push(format!(
            "peer received a second request before replying to the first: {extra:?}"
        ));
    }

    // peer finally replies to req1
    peer.write_all(&[0x01, 0x00, 0x00, 0x04, b'r', b'e', b'p', b'1'])
        .await
        .unwrap();
    peer.flush().await.unwrap();
    let r = timeout(Duration::from_secs(1), req.recv()).await;
    eprintln!("F14a: recv after late reply -> {}", describe(&r));
    match &r {
        Ok(Ok(m)) if m.len() == 1 && m.get(0).unwrap().as_ref() == b"rep1" => {
            if s2.is_ok() {
                problems.push(
                    "reply to req1 was delivered as the answer to req2 (mis-paired)".to_string(),
                );
            }
        }
        other => problems.push(format!(
            "recv() after the late reply did not return it: {}",
            describe(other)
        )),
    }
    assert!(problems.is_empty(), "\n  {}", problems.join("\n  "));
}

// ---------------------------------------------------------------------------
// F16a/b/c: failed peer stays in the fair queue -> same error forever
// ---------------------------------------------------------------------------

/// Connects `sock` to one scripted peer that sends a truncated frame and
/// closes, then calls recv() `ROUNDS` times (200 ms timeout each). Returns
/// a description of each outcome and the number of errors.
async fn f16_run<S: Socket + SocketRecv>(sock: &mut S, peer_type: &'static str) -> (Vec<String>, usize) {
    const ROUNDS: usize = 5;
    let (ep, peer) = scripted_listener(peer_type).await;
    timeout(Duration::from_secs(5), sock.connect(&ep))
        .await
        .expect("connect hung")
        .unwrap();
    let mut peer = peer.await.unwrap();
    // announces a 5 byte frame, delivers 2 bytes, then FIN
    peer.write_all(&[0x00, 0x05, b'a', b'b']).await.unwrap();
    peer.flush().await.unwrap();
    peer.shutdown().await.unwrap();
    drop(peer);
    tokio::time::sleep(Duration::from_millis(100)).await;

    let mut outcomes = vec![];
    let mut errors = 0;
    for _ in 0..ROUNDS {
        let r = timeout(Duration::from_millis(200), sock.recv()).await;
        if let Ok(Err(_)) = &r {
            errors += 1;
        }
        outcomes.push(describe(&r));
    }
    (outcomes, errors)
}

fn f16_check(name: &str, outcomes: Vec<String>, errors: usize) {
    eprintln!("{name}: recv outcomes:");
    for o in &outcomes {
        eprintln!("    {o}");
    }
    assert!(
        errors <= 1,
        "{name}: the single dead peer produced {errors} errors in {} recv() calls (expected at most 1, then pending): {:?}",
        outcomes.len(),
        outcomes
    );
    assert!(
        outcomes.last().unwrap().starts_with("PENDING"),
        "{name}: last recv() should pend once the failed peer has been dropped, got {}",
        outcomes.last().unwrap()
    );
}

#[tokio::test(flavor = "multi_thread", worker_threads = 2)]
async fn f16a_dealer_recv_error_repeats_forever() {
    let mut s = DealerSocket::new();
    let (o, e) = f16_run(&mut s, "ROUTER").await;
    f16_check("F16a DEALER", o, e);
}

#[tokio::test(flavor = "multi_thread", worker_threads = 2)]
async fn f16b_rep_recv_error_repeats_forever() {
    let mut s = RepSocket::new();
    let (o, e) = f16_run(&mut s, "REQ").await;
    f16_check("F16b REP", o, e);
}

#[tokio::test(flavor = "multi_thread", worker_threads = 2)]
async fn f16c_sub_recv_error_repeats_forever() {
    let mut s = SubSocket::new();
    let (o, e) = f16_run(&mut s, "PUB").await;
    f16_check("F16c SUB", o, e);
}

// ---------------------------------------------------------------------------
// F16e (exploratory): REQ never forgets a dead peer
// ---------------------------------------------------------------------------

async fn f16e_run(abortive: bool) -> Vec<(String, String)> {
    let mut req = ReqSocket::new();
    let (ep, peer) = scripted_listener("REP").await;
    timeout(Duration::from_secs(5), req.connect(&ep))
        .await
        .expect("connect hung")
        .unwrap();
    let peer = peer.await.unwrap();
    if abortive {
        reset(peer);
    } else {
        drop(peer);
    }
    tokio::time::sleep(Duration::from_millis(150)).await;

    let mut log = vec![];
    for i in 0..5 {
        let s = timeout(
            Duration::from_millis(500),
            req.send(ZmqMessage::from(format!("req{i}"))),
        )
        .await;
        let r = timeout(Duration::from_millis(200), req.recv()).await;
        log.push((describe(&s), describe(&r)));
    }
    log
}

#[tokio::test(flavor = "multi_thread", worker_threads = 2)]
async fn f16e_req_keeps_selecting_dead_peer() {
    let mut bad = vec![];
    for abortive in [false, true] {
        let log = f16e_run(abortive).await;
        eprintln!(
            "F16e: peer closed with {}:",
            if abortive { "RST" } else { "FIN" }
        );
        for (i, (s, r)) in log.iter().enumerate() {
            eprintln!("    attempt {i}: send -> {s}\n               recv -> {r}");
        }
        let last_send = &log.last().unwrap().0;
        if !(last_send.contains("ReturnToSender") && last_send.contains("Not connected to peers")) {
            bad.push(format!(
                "after close with {}: 5th send() still not `Not connected to peers`: {last_send}",
                if abortive { "RST" } else { "FIN" }
            ));
        }
    }
    assert!(bad.is_empty(), "\n  {}", bad.join("\n  "));
}

// ===========================================================================
// Round 2 (appended): F13b and F16d
// ===========================================================================

/// Reads the remainder of a frame whose flags byte has already been consumed.
async fn read_frame_after_flags<S: AsyncRead + Unpin>(
    s: &mut S,
    flags: u8,
) -> std::io::Result<(u8, Vec<u8>)> {
    let len = if flags & 0x02 != 0 {
        s.read_u64().await? as usize
    } else {
        s.read_u8().await? as usize
    };
    let mut body = vec![0u8; len];
    s.read_exact(&mut body).await?;
    Ok((flags, body))
}

/// Reads frames until nothing has arrived for `idle` (quiescence) or the
/// stream ends.
async fn drain_until_idle<S: AsyncRead + Unpin>(s: &mut S, idle: Duration) -> Vec<(u8, Vec<u8>)> {
    let mut out = vec![];
    loop {
        // Only the wait for the first byte of a frame is subject to the idle
        // timeout, so a frame is never abandoned half-read.
        let flags = match timeout(idle, s.read_u8()).await {
            Ok(Ok(f)) => f,
            _ => break,
        };
        match timeout(Duration::from_secs(5), read_frame_after_flags(s, flags)).await {
            Ok(Ok(f)) => out.push(f),
            _ => break,
        }
    }
    out
}

/// Topics the scripted PUB peer considers subscribed after folding `frames`.
fn subscribed_topics(frames: &[(u8, Vec<u8>)]) -> std::collections::HashSet<Vec<u8>> {
    let mut set = std::collections::HashSet::new();
    for (_flags, body) in frames {
        match body.first() {
            Some(1) => {
                set.insert(body[1..].to_vec());
            }
            Some(0) => {
                set.remove(&body[1..]);
            }
            _ => {}
        }
    }
    set
}

fn short(t: &[u8]) -> String {
    if t.len() > 16 {
        format!("{}..({} bytes)", String::from_utf8_lossy(&t[..8]), t.len())
    } else {
        String::from_utf8_lossy(t).to_string()
    }
}

/// Common part of the F13b scenario once the scripted peer has completed the
/// handshake and is NOT reading: waits until the re-announcement has started
/// (so the snapshot of the subscription set has been taken), lets the
/// application subscribe to "late", then lets the peer read everything until
/// quiescence. Returns the socket and the frames seen by the peer.
async fn f13b_late_subscribe<S>(mut sub: SubSocket, peer: &mut S) -> (SubSocket, Vec<(u8, Vec<u8>)>)
where
    S: AsyncRead + Unpin,
{
    // First byte of the re-announcement: `peer_connected` is now past its
    // snapshot and parked in the sends (the topics do not fit in the pipe).
    let first_flags = timeout(Duration::from_secs(3), peer.read_u8())
        .await
        .expect("re-announcement never started")
        .unwrap();

    // The application subscribes while the new peer is still being set up.
    // It runs as a task so that the test cannot deadlock against a repair that
    // makes subscribe() wait for the new peer: the peer starts reading after
    // 200 ms whether or not subscribe() has returned.
    let mut sub_task = tokio::spawn(async move {
        let r = sub.subscribe("late").await;
        (sub, r)
    });
    let early = timeout(Duration::from_millis(200), &mut sub_task).await;
    eprintln!(
        "F13b: subscribe(\"late\") {} before the peer started reading",
        if early.is_ok() { "returned" } else { "did not return" }
    );

    let mut frames = vec![
        timeout(Duration::from_secs(5), read_frame_after_flags(peer, first_flags))
            .await
            .expect("first frame stalled")
            .unwrap(),
    ];
    frames.extend(drain_until_idle(peer, Duration::from_millis(400)).await);

    let (sub, r) = match early {
        Ok(j) => j.unwrap(),
        Err(_) => timeout(Duration::from_secs(3), sub_task)
            .await
            .expect("subscribe(\"late\") hung")
            .unwrap(),
    };
    eprintln!("F13b: subscribe(\"late\") -> {r:?}");
    // anything sent after subscribe() finally returned
    frames.extend(drain_until_idle(peer, Duration::from_millis(300)).await);
    (sub, frames)
}

fn f13b_check(frames: &[(u8, Vec<u8>)], expected: &[Vec<u8>]) {
    let told = subscribed_topics(frames);
    let mut told_s: Vec<String> = told.iter().map(|t| short(t)).collect();
    told_s.sort();
    eprintln!("F13b: at quiescence the peer has been told: {told_s:?}");
    let missing: Vec<String> = expected
        .iter()
        .filter(|t| !told.contains(*t))
        .map(|t| short(t))
        .collect();
    assert!(
        missing.is_empty(),
        "at quiescence the new peer was never told about topic(s) {missing:?} that are in the socket's subscription set (peer knows {told_s:?})"
    );
}

/// Deterministic, in-memory: the accept path (`util::peer_connected`, which is
/// what the background accept task of a bound socket runs) over a 256 byte
/// duplex pipe.
#[tokio::test(flavor = "multi_thread", worker_threads = 2)]
async fn f13b_sub_late_subscribe_lost_duplex() {
    let mut sub = SubSocket::new();
    let big = "b".repeat(64 * 1024);
    sub.subscribe("a").await.unwrap();
    sub.subscribe(&big).await.unwrap();

    let (lib_end, mut peer_end) = tokio::io::duplex(256);
    let backend = sub.backend();
    let accept_task = tokio::spawn(async move {
        crate::util::peer_connected(make_framed(lib_end), backend)
            .await
            .map(|_| ())
    });
    scripted_handshake(&mut peer_end, "PUB").await;

    let (_sub, frames) = f13b_late_subscribe(sub, &mut peer_end).await;
    let r = timeout(Duration::from_secs(3), accept_task)
        .await
        .expect("peer_connected hung")
        .expect("peer_connected panicked");
    eprintln!("F13b(duplex): peer_connected -> {r:?}");
    f13b_check(
        &frames,
        &[b"a".to_vec(), big.into_bytes(), b"late".to_vec()],
    );
}

/// Same through the public API: SUB bound on loopback TCP, the handshake of the
/// accepted connection runs in the socket's background accept task. 16 topics
/// of 1 MiB cannot disappear into the socket buffers, so the re-announcement
/// is parked while the peer does not read.
#[tokio::test(flavor = "multi_thread", worker_threads = 2)]
async fn f13b_sub_late_subscribe_lost_bound_tcp() {
    let mut sub = SubSocket::new();
    let mut expected = vec![];
    for i in 0..16u8 {
        let mut t = String::with_capacity(1 << 20);
        t.push((b'A' + i) as char);
        while t.len() < (1 << 20) {
            t.push('x');
        }
        sub.subscribe(&t).await.unwrap();
        expected.push(t.into_bytes());
    }
    expected.push(b"late".to_vec());
    let port = match sub.bind("tcp://127.0.0.1:0").await.unwrap() {
        crate::Endpoint::Tcp(_, port) => port,
        other => panic!("unexpected endpoint {other}"),
    };
    let mut peer = TcpStream::connect(("127.0.0.1", port)).await.unwrap();
    scripted_handshake(&mut peer, "PUB").await;

    let (_sub, frames) = f13b_late_subscribe(sub, &mut peer).await;
    f13b_check(&frames, &expected);
}

// ---------------------------------------------------------------------------
// F16d: orderly close by the peer is never reported to the backend
// ---------------------------------------------------------------------------

/// Public API, black box: a PULL socket bound on loopback TCP. 20 scripted
/// PUSH peers connect, send one message and half-close (FIN). Once the socket
/// has consumed the messages and observed the end of each stream it should
/// release the connection, which the peer observes as EOF on its read side.
#[tokio::test(flavor = "multi_thread", worker_threads = 2)]
async fn f16d_pull_tcp_clean_close_never_released() {
    const N: usize = 20;
    let mut pull = crate::PullSocket::new();
    let port = match pull.bind("tcp://127.0.0.1:0").await.unwrap() {
        crate::Endpoint::Tcp(_, port) => port,
        other => panic!("unexpected endpoint {other}"),
    };
    let mut peers = vec![];
    for i in 0..N {
        let mut s = TcpStream::connect(("127.0.0.1", port)).await.unwrap();
        scripted_handshake(&mut s, "PUSH").await;
        s.write_all(&[0x00, 0x01, i as u8]).await.unwrap();
        s.flush().await.unwrap();
        s.shutdown().await.unwrap(); // orderly close of our sending direction
        peers.push(s);
    }
    let mut got = vec![];
    for _ in 0..N {
        let m = timeout(Duration::from_secs(2), pull.recv())
            .await
            .expect("message missing")
            .unwrap();
        got.push(m.get(0).unwrap()[0]);
    }
    got.sort();
    assert_eq!(got, (0..N as u8).collect::<Vec<_>>());
    // keep polling the socket: it observes the end of all 20 streams
    for _ in 0..3 {
        let r = timeout(Duration::from_millis(300), pull.recv()).await;
        assert!(r.is_err(), "unexpected recv result {}", describe(&r));
    }

    let deadline = tokio::time::Instant::now() + Duration::from_secs(1);
    let mut still_open = 0;
    for s in peers.iter_mut() {
        let mut b = [0u8; 1];
        match tokio::time::timeout_at(deadline, s.read(&mut b)).await {
            Ok(Ok(0)) | Ok(Err(_)) => {} // connection released by the socket
            Ok(Ok(_)) => panic!("PULL socket sent data?!"),
            Err(_) => still_open += 1,
        }
    }
    drop(pull);
    assert_eq!(
        still_open, 0,
        "{still_open} of {N} connections whose peer closed cleanly are still held open by the PULL socket (peer never sees EOF)"
    );
}

/// White box: a real `PullSocket` fed through duplex pipes (the accept path
/// `util::peer_connected` with the socket's own backend), so that both the
/// peer table and the fate of the write halves can be inspected.
#[allow(unsafe_code)] // the crate builds with -Dunsafe_code; one cast below, test only
#[tokio::test(flavor = "multi_thread", worker_threads = 2)]
async fn f16d_pull_peer_table_after_clean_close() {
    use crate::backend::GenericSocketBackend;
    use std::sync::Arc;

    const N: usize = 20;
    let mut pull = crate::PullSocket::new();
    // `PullSocket.backend` is a private field; `backend()` hands out the same
    // Arc as `Arc<dyn MultiPeerBackend>`. Its concrete type is
    // `GenericSocketBackend` (see `PullSocket::with_options`), so the data
    // pointer can be reinterpreted to reach the pub(crate) `peers` table.
    // (If a repair ever changes the backend type of PullSocket this cast must
    // change with it.)
    let backend: Arc<GenericSocketBackend> = {
        let dynamic: Arc<dyn crate::MultiPeerBackend> = pull.backend();
        assert_eq!(dynamic.socket_type(), SocketType::PULL);
        unsafe { Arc::from_raw(Arc::into_raw(dynamic) as *const GenericSocketBackend) }
    };

    let mut peers = vec![];
    for i in 0..N {
        let (lib_end, mut peer_end) = tokio::io::duplex(4096);
        let b = pull.backend();
        let accept =
            tokio::spawn(
                async move { crate::util::peer_connected(make_framed(lib_end), b).await },
            );
        scripted_handshake(&mut peer_end, "PUSH").await;
        accept.await.unwrap().unwrap();
        peer_end.write_all(&[0x00, 0x01, i as u8]).await.unwrap();
        peer_end.shutdown().await.unwrap(); // orderly end of stream towards the socket
        peers.push(peer_end);
    }
    assert_eq!(backend.peers.len(), N);

    for _ in 0..N {
        timeout(Duration::from_secs(2), pull.recv())
            .await
            .expect("message missing")
            .unwrap();
    }
    // keep polling the socket: it observes the end of all streams
    for _ in 0..3 {
        let r = timeout(Duration::from_millis(300), pull.recv()).await;
        assert!(r.is_err(), "unexpected recv result {}", describe(&r));
    }

    let mut no_eof = 0;
    for p in peers.iter_mut() {
        let mut b = [0u8; 1];
        match timeout(Duration::from_millis(20), p.read(&mut b)).await {
            Ok(Ok(0)) | Ok(Err(_)) => {}
            _ => no_eof += 1,
        }
    }
    let held = backend.peers.len();
    eprintln!("F16d: peer table holds {held} entries, {no_eof} peers saw no EOF");
    assert!(
        held == 0 && no_eof == 0,
        "after all {N} peers closed cleanly and the socket observed the end of every stream: peer table still holds {held} entries and {no_eof} peers never saw the socket drop its write half"
    );
}

// ===========================================================================
// Round 3 (appended): F06a - FairQueue::poll_next spins on a stream that wakes
// its waker while returning Pending (tokio's cooperative budget does that)
// ===========================================================================

mod f06a {
    use super::*;
    use crate::fair_queue::FairQueue;
    use futures::task::{waker, ArcWake};
    use futures::{Stream, StreamExt};
    use std::pin::Pin;
    use std::sync::atomic::{AtomicBool, AtomicUsize, Ordering};
    use std::sync::Arc;
    use std::task::{Context, Poll};

    struct CountingWaker {
        wakes: AtomicUsize,
    }
    impl ArcWake for CountingWaker {
        fn wake_by_ref(arc_self: &Arc<Self>) {
            arc_self.wakes.fetch_add(1, Ordering::SeqCst);
        }
    }

    /// Models a tokio I/O resource under the cooperative-scheduling budget:
    /// while the task's budget is exhausted it returns `Pending` and wakes
    /// the waker at once ("yield to the scheduler, then poll me again"); the
    /// budget only comes back when the task's outermost poll returns to the
    /// executor. With budget it is simply ready.
    ///
    /// Safety valve so that the demonstration terminates on code that never
    /// returns to the executor: after SPIN_LIMIT polls it stops self-waking.
    struct BudgetedStream {
        has_budget: Arc<AtomicBool>,
        polls: Arc<AtomicUsize>,
    }
    const SPIN_LIMIT: usize = 100_000;

    impl Stream for BudgetedStream {
        type Item = u32;
        fn poll_next(self: Pin<&mut Self>, cx: &mut Context<'_>) -> Poll<Option<u32>> {
            let n = self.polls.fetch_add(1, Ordering::SeqCst) + 1;
            if self.has_budget.load(Ordering::SeqCst) {
                return Poll::Ready(Some(42));
            }
            if n <= SPIN_LIMIT {
                cx.waker().wake_by_ref();
            }
            Poll::Pending
        }
    }

    /// ONE outer `poll_next` call must perform a bounded number of inner
    /// polls and return `Pending` (having arranged for the caller to be woken)
    /// when the only stream answered "Pending, wake me right away".
    #[test]
    fn f06a_fair_queue_spins_on_self_waking_pending_stream() {
        let has_budget = Arc::new(AtomicBool::new(false));
        let polls = Arc::new(AtomicUsize::new(0));
        let mut fq: FairQueue<BudgetedStream, u32> = FairQueue::new(true);
        fq.inner().lock().insert(
            7,
            BudgetedStream {
                has_budget: has_budget.clone(),
                polls: polls.clone(),
            },
        );
        let counting = Arc::new(CountingWaker {
            wakes: AtomicUsize::new(0),
        });
        let w = waker(counting.clone());
        let mut cx = Context::from_waker(&w);

        // Outer poll #1: the task's budget is exhausted.
        let r1 = Pin::new(&mut fq).poll_next(&mut cx);
        let inner_polls = polls.load(Ordering::SeqCst);
        let wakes = counting.wakes.load(Ordering::SeqCst);
        eprintln!(
            "F06a: outer poll #1 -> {:?} after {inner_polls} inner polls, outer waker woken {wakes} times",
            r1
        );
        assert!(r1.is_pending(), "expected Pending, got {r1:?}");
        assert!(
            inner_polls <= 1000,
            "a single FairQueue::poll_next call polled the self-waking stream {inner_polls} times \
             (it only stopped because the test stream gives up self-waking after {SPIN_LIMIT} polls): \
             with a real tokio resource whose budget is exhausted this is an endless busy loop"
        );
        assert!(
            wakes >= 1,
            "poll_next returned Pending but the caller's waker was never woken: the self-wake was lost"
        );

        // The executor regained control: budget replenished, task polled again.
        has_budget.store(true, Ordering::SeqCst);
        let r2 = Pin::new(&mut fq).poll_next(&mut cx);
        assert_eq!(r2, Poll::Ready(Some((7, 42))));
    }

    /// Self-wakes on the first `pending` polls, then yields 42, then ends.
    struct SelfWakingN {
        pending: usize,
        done: bool,
    }
    impl Stream for SelfWakingN {
        type Item = u32;
        fn poll_next(mut self: Pin<&mut Self>, cx: &mut Context<'_>) -> Poll<Option<u32>> {
            if self.pending > 0 {
                self.pending -= 1;
                cx.waker().wake_by_ref();
                return Poll::Pending;
            }
            if self.done {
                return Poll::Ready(None);
            }
            self.done = true;
            Poll::Ready(Some(42))
        }
    }

    /// GUARD (passes on the current code by design, must keep passing after a
    /// repair): a stream that self-wakes 5 times and then yields 42 must be
    /// driven to completion by a real executor, i.e. a repaired poll_next that
    /// returns Pending after a self-wake must not lose the wake-up.
    #[test]
    fn f06a_guard_self_waking_stream_still_completes_under_executor() {
        let (tx, rx) = std::sync::mpsc::channel();
        std::thread::spawn(move || {
            let mut fq: FairQueue<SelfWakingN, u32> = FairQueue::new(true);
            fq.inner().lock().insert(
                1,
                SelfWakingN {
                    pending: 5,
                    done: false,
                },
            );
            let item = futures::executor::block_on(fq.next());
            let _ = tx.send(item);
        });
        match rx.recv_timeout(Duration::from_secs(3)) {
            Ok(item) => assert_eq!(item, Some((1, 42))),
            Err(_) => panic!("FairQueue did not deliver the item within 3 s (lost wake-up or spin)"),
        }
    }

    // -----------------------------------------------------------------------
    // the same with real tokio resources (child processes: a spinning thread
    // cannot be cancelled, so the hang is contained in a process we can kill)
    // -----------------------------------------------------------------------

    struct ChildOutcome {
        status: Option<std::process::ExitStatus>, // None: hung and killed
        wall: Duration,
        cpu_secs: f64, // user+system CPU time of the child when it ended/was killed
        stderr_tail: String,
    }

    fn child_cpu_secs(pid: u32) -> f64 {
        // /proc/<pid>/stat fields 14 and 15 (utime, stime) in clock ticks (100 Hz on Linux)
        std::fs::read_to_string(format!("/proc/{pid}/stat"))
            .ok()
            .and_then(|s| {
                let rest = s.rsplit_once(") ")?.1.to_string();
                let f: Vec<&str> = rest.split_whitespace().collect();
                let ut: f64 = f.get(11)?.parse().ok()?;
                let st: f64 = f.get(12)?.parse().ok()?;
                Some((ut + st) / 100.0)
            })
            .unwrap_or(-1.0)
    }

    fn is_child(name: &str) -> bool {
        std::env::var(CHILD_ENV).ok().as_deref() == Some(name)
    }

    fn run_child(name: &str, watchdog: Duration) -> ChildOutcome {
        use std::io::Read;
        use std::process::{Command, Stdio};
        let mut child = Command::new(std::env::current_exe().unwrap())
            .args([
                &format!("verif_triage::f06a::{name}"),
                "--exact",
                "--nocapture",
                "--test-threads",
                "1",
            ])
            .env(CHILD_ENV, name)
            .env("RUST_BACKTRACE", "0")
            .stdout(Stdio::null())
            .stderr(Stdio::piped())
            .spawn()
            .unwrap();
        let pid = child.id();
        let start = std::time::Instant::now();
        let mut cpu = 0.0;
        let status = loop {
            if let Some(st) = child.try_wait().unwrap() {
                break Some(st);
            }
            cpu = child_cpu_secs(pid);
            if start.elapsed() > watchdog {
                let _ = child.kill();
                let _ = child.wait();
                break None;
            }
            std::thread::sleep(Duration::from_millis(20));
        };
        let wall = start.elapsed();
        let mut stderr = String::new();
        if let Some(mut e) = child.stderr.take() {
            let _ = e.read_to_string(&mut stderr);
        }
        let lines: Vec<&str> = stderr.lines().filter(|l| !l.trim().is_empty()).collect();
        let tail = lines[lines.len().saturating_sub(8)..].join("\n    ");
        ChildOutcome {
            status,
            wall,
            cpu_secs: cpu,
            stderr_tail: tail,
        }
    }

    fn assert_child_ok(name: &str, o: ChildOutcome) {
        match o.status {
            None => panic!(
                "{name}: child HUNG: killed by the watchdog after {:.1} s wall clock, having burnt {:.1} s of CPU; stderr tail:\n    {}",
                o.wall.as_secs_f64(),
                o.cpu_secs,
                o.stderr_tail
            ),
            Some(st) => assert!(
                st.success(),
                "{name}: child failed: {st:?}; stderr tail:\n    {}",
                o.stderr_tail
            ),
        }
    }

    /// A tokio mpsc receiver as a Stream (`poll_recv` takes part in tokio's
    /// cooperative budget like every tokio I/O resource).
    struct MpscStream(tokio::sync::mpsc::UnboundedReceiver<u32>);
    impl Stream for MpscStream {
        type Item = u32;
        fn poll_next(mut self: Pin<&mut Self>, cx: &mut Context<'_>) -> Poll<Option<u32>> {
            self.0.poll_recv(cx)
        }
    }

    async fn take_300_from_tokio_channel(label: &str) {
        let (tx, rx) = tokio::sync::mpsc::unbounded_channel();
        for i in 0..300u32 {
            tx.send(i).unwrap();
        }
        let mut fq: FairQueue<MpscStream, u32> = FairQueue::new(true);
        fq.inner().lock().insert(1, MpscStream(rx));
        for i in 0..300u32 {
            let item = fq.next().await;
            assert_eq!(item, Some((1, i)));
            if i % 32 == 0 || (120..136).contains(&i) {
                eprintln!("F06a({label}): received item {i}");
            }
        }
        drop(tx);
    }

    /// Deterministic with real tokio: 300 items are already queued in a tokio
    /// channel that feeds the FairQueue; the future passed to
    /// `Runtime::block_on` of a MULTI-THREAD runtime (what `#[tokio::main]` and
    /// `#[tokio::test(flavor = "multi_thread")]` bodies are) takes them in a
    /// loop. Every item is immediately available, so the future never yields
    /// and its budget (128 operations) runs out at the 129th item. That future
    /// is polled outside any scheduler context, where tokio reports an
    /// exhausted budget as "Pending + wake the waker at once".
    #[test]
    fn f06a_tokio_budget_exhaustion_hangs_fair_queue() {
        const NAME: &str = "f06a_tokio_budget_exhaustion_hangs_fair_queue";
        if !is_child(NAME) {
            return assert_child_ok(NAME, run_child(NAME, Duration::from_secs(3)));
        }
        let rt = tokio::runtime::Builder::new_multi_thread()
            .worker_threads(1)
            .enable_all()
            .build()
            .unwrap();
        rt.block_on(take_300_from_tokio_channel("block_on, multi-thread rt"));
    }

    /// INFORMATION (passes on the current code): the same loop inside a spawned
    /// task, or on a current-thread runtime, does not hang, because there tokio
    /// DEFERS the wake of an exhausted budget to the scheduler instead of
    /// waking synchronously (tokio::runtime::context::defer).
    #[test]
    fn f06a_info_tokio_budget_in_spawned_task_or_current_thread_is_fine() {
        const NAME: &str = "f06a_info_tokio_budget_in_spawned_task_or_current_thread_is_fine";
        if !is_child(NAME) {
            return assert_child_ok(NAME, run_child(NAME, Duration::from_secs(3)));
        }
        let rt = tokio::runtime::Builder::new_multi_thread()
            .worker_threads(1)
            .enable_all()
            .build()
            .unwrap();
        rt.block_on(async {
            tokio::spawn(take_300_from_tokio_channel("spawned task"))
                .await
                .unwrap()
        });
        let rt = tokio::runtime::Builder::new_current_thread()
            .enable_all()
            .build()
            .unwrap();
        rt.block_on(take_300_from_tokio_channel("block_on, current-thread rt"));
    }

    /// Exploration switch: with VERIF_F06A_SPAWN=1 the socket loop of the e2e
    /// tests runs inside `tokio::spawn` (on a worker thread) instead of directly
    /// in the future given to `Runtime::block_on`.
    async fn maybe_spawned<F>(f: F)
    where
        F: std::future::Future<Output = ()> + Send + 'static,
    {
        if std::env::var("VERIF_F06A_SPAWN").is_ok() {
            eprintln!("F06a: socket loop runs in a spawned task");
            tokio::spawn(f).await.unwrap()
        } else {
            f.await
        }
    }

    /// End to end, one receiving socket: 16 raw PUSH peers each write 64
    /// messages of 8 KiB (8 MiB in total) BEFORE the PULL socket starts
    /// receiving, so that far more than 128 socket reads are immediately
    /// ready. PULL must receive all 1024 messages.
    #[test]
    fn f06a_e2e_pull_with_backlog_hangs() {
        const NAME: &str = "f06a_e2e_pull_with_backlog_hangs";
        if !is_child(NAME) {
            return assert_child_ok(NAME, run_child(NAME, Duration::from_secs(5)));
        }
        const PEERS: usize = 16;
        const MSGS: usize = 64;
        let rt = tokio::runtime::Builder::new_multi_thread()
            .worker_threads(2)
            .enable_all()
            .build()
            .unwrap();
        rt.block_on(maybe_spawned(async {
            let mut pull = crate::PullSocket::new();
            let port = match pull.bind("tcp://127.0.0.1:0").await.unwrap() {
                crate::Endpoint::Tcp(_, port) => port,
                other => panic!("unexpected endpoint {other}"),
            };
            let mut writers = vec![];
            for _ in 0..PEERS {
                let mut s = TcpStream::connect(("127.0.0.1", port)).await.unwrap();
                scripted_handshake(&mut s, "PUSH").await;
                writers.push(tokio::spawn(async move {
                    let mut frame = vec![0x02u8];
                    frame.extend_from_slice(&(8192u64).to_be_bytes());
                    frame.extend_from_slice(&[0x55u8; 8192]);
                    for _ in 0..MSGS {
                        s.write_all(&frame).await.unwrap();
                    }
                    s.flush().await.unwrap();
                    s // keep the connection open
                }));
            }
            // let the backlog build up in the socket buffers
            tokio::time::sleep(Duration::from_millis(500)).await;
            for i in 0..PEERS * MSGS {
                let m = pull.recv().await.unwrap();
                assert_eq!(m.get(0).unwrap().len(), 8192);
                if i % 64 == 0 {
                    eprintln!("F06a(e2e PULL): received {} messages", i + 1);
                }
            }
            eprintln!("F06a(e2e PULL): received all {} messages", PEERS * MSGS);
        }));
    }

    /// End to end as first observed: 16 REQ clients x 300 requests hammering one
    /// REP socket on a multi-thread runtime.
    #[test]
    fn f06a_e2e_req_clients_hammer_rep_hangs() {
        const NAME: &str = "f06a_e2e_req_clients_hammer_rep_hangs";
        if !is_child(NAME) {
            return assert_child_ok(NAME, run_child(NAME, Duration::from_secs(6)));
        }
        const CLIENTS: usize = 16;
        const MSGS: usize = 300;
        let rt = tokio::runtime::Builder::new_multi_thread()
            .worker_threads(4)
            .enable_all()
            .build()
            .unwrap();
        rt.block_on(maybe_spawned(async {
            let mut rep = RepSocket::new();
            let ep = rep.bind("tcp://127.0.0.1:0").await.unwrap().to_string();
            let mut clients = vec![];
            for c in 0..CLIENTS {
                let ep = ep.clone();
                clients.push(tokio::spawn(async move {
                    let mut req = ReqSocket::new();
                    req.connect(&ep).await.unwrap();
                    for i in 0..MSGS {
                        req.send(ZmqMessage::from(format!("c{c}-{i}")))
                            .await
                            .unwrap();
                        let r = req.recv().await.unwrap();
                        assert_eq!(r.len(), 1);
                    }
                }));
            }
            for i in 0..CLIENTS * MSGS {
                let m = rep.recv().await.unwrap();
                rep.send(m).await.unwrap();
                if i % 400 == 0 {
                    eprintln!("F06a(e2e REP): served {} requests", i + 1);
                }
            }
            eprintln!("F06a(e2e REP): served all {} requests", CLIENTS * MSGS);
            for c in clients {
                c.await.unwrap();
            }
        }));
    }
}

// ===========================================================================
// Round 4 (appended): F17 - after close()/drop every connected peer must
// observe end-of-stream
// ===========================================================================

mod f17 {
    use super::*;
    use crate::{PullSocket, PushSocket};

    #[derive(Clone, Copy, Debug)]
    enum End {
        Close,
        Drop,
    }

    async fn end_socket<S: Socket>(sock: S, how: End) {
        match how {
            End::Close => {
                let errs = timeout(Duration::from_secs(3), sock.close())
                    .await
                    .expect("close() hung");
                assert!(errs.is_empty(), "close() reported {errs:?}");
            }
            End::Drop => drop(sock),
        }
    }

    /// Binds `sock` on loopback TCP and connects a raw scripted peer of type
    /// `peer_type` that completes the handshake. Returns (port, established peer).
    async fn bind_and_connect<S: Socket>(sock: &mut S, peer_type: &str) -> (u16, TcpStream) {
        let port = match sock.bind("tcp://127.0.0.1:0").await.unwrap() {
            crate::Endpoint::Tcp(_, port) => port,
            other => panic!("unexpected endpoint {other}"),
        };
        let mut a = TcpStream::connect(("127.0.0.1", port)).await.unwrap();
        scripted_handshake(&mut a, peer_type).await;
        // let the accept task finish registering the peer with the backend
        tokio::time::sleep(Duration::from_millis(100)).await;
        (port, a)
    }

    /// A raw TCP client that connects and then says nothing. Returns once the
    /// library's greeting has arrived, i.e. the socket's handshake task for
    /// this connection is running (and parked waiting for our greeting).
    async fn stalled_peer(port: u16) -> TcpStream {
        let mut b = TcpStream::connect(("127.0.0.1", port)).await.unwrap();
        let mut g = [0u8; 64];
        timeout(Duration::from_secs(2), b.read_exact(&mut g))
            .await
            .expect("library never sent its greeting to the stalled peer")
            .unwrap();
        b
    }

    /// True if the peer's connection is released by the socket within
    /// `within`: read returns 0 (FIN) or an error (RST). Data is skipped.
    async fn sees_eof(s: &mut TcpStream, within: Duration) -> bool {
        let deadline = tokio::time::Instant::now() + within;
        let mut buf = [0u8; 4096];
        loop {
            match tokio::time::timeout_at(deadline, s.read(&mut buf)).await {
                Ok(Ok(0)) | Ok(Err(_)) => return true,
                Ok(Ok(_)) => continue,
                Err(_) => return false,
            }
        }
    }

    /// One request/reply exchange between the raw REQ peer `a` and `rep`. The
    /// request is already in the socket buffer when recv() is first polled.
    async fn rep_exchange(rep: &mut RepSocket, a: &mut TcpStream) {
        a.write_all(&[0x01, 0x00, 0x00, 0x03, b'r', b'e', b'q'])
            .await
            .unwrap();
        a.flush().await.unwrap();
        tokio::time::sleep(Duration::from_millis(100)).await;
        let m = timeout(Duration::from_secs(2), rep.recv())
            .await
            .expect("request missing")
            .unwrap();
        assert_eq!(m.get(0).unwrap().as_ref(), b"req");
        rep.send(ZmqMessage::from("rep")).await.unwrap();
        assert_eq!(read_frame(a).await.unwrap(), (0x01, vec![]));
        assert_eq!(read_frame(a).await.unwrap(), (0x00, b"rep".to_vec()));
    }

    // ---------------------------------------------------------------------
    // F17a: a stalled handshake of ANOTHER connection keeps the backend (and
    // through it the shared QueueInner with all read halves) alive
    // ---------------------------------------------------------------------

    /// Ends the socket while peer `b` is stalled mid-handshake and checks
    /// that the established peer `a` is released. Before asserting, probes
    /// whether `a` is released once `b` goes away (diagnosis, printed only).
    async fn f17a_finish<S: Socket>(label: &str, sock: S, how: End, mut a: TcpStream, b: Option<TcpStream>) {
        end_socket(sock, how).await;
        let released = sees_eof(&mut a, Duration::from_secs(2)).await;
        eprintln!(
            "F17a {label} ({how:?}, stalled peer: {}): established peer saw EOF within 2 s: {released}",
            b.is_some()
        );
        if !released {
            if let Some(b) = b {
                drop(b);
                let after = sees_eof(&mut a, Duration::from_secs(1)).await;
                eprintln!("F17a {label}: ... and after the stalled peer disconnected: EOF seen: {after}");
            }
        }
        assert!(
            released,
            "{label}: the socket is gone ({how:?}) but its established peer saw no end-of-stream within 2 s"
        );
    }

    #[tokio::test(flavor = "multi_thread", worker_threads = 2)]
    async fn f17a_rep_close_with_stalled_handshake_peer_no_eof() {
        let mut rep = RepSocket::new();
        let (port, mut a) = bind_and_connect(&mut rep, "REQ").await;
        rep_exchange(&mut rep, &mut a).await;
        let b = stalled_peer(port).await;
        f17a_finish("REP", rep, End::Close, a, Some(b)).await;
    }

    #[tokio::test(flavor = "multi_thread", worker_threads = 2)]
    async fn f17a_rep_drop_with_stalled_handshake_peer_no_eof() {
        let mut rep = RepSocket::new();
        let (port, mut a) = bind_and_connect(&mut rep, "REQ").await;
        rep_exchange(&mut rep, &mut a).await;
        let b = stalled_peer(port).await;
        f17a_finish("REP", rep, End::Drop, a, Some(b)).await;
    }

    #[tokio::test(flavor = "multi_thread", worker_threads = 2)]
    async fn f17a_pull_drop_with_stalled_handshake_peer_no_eof() {
        let mut pull = PullSocket::new();
        let (port, mut a) = bind_and_connect(&mut pull, "PUSH").await;
        a.write_all(&[0x00, 0x01, b'm']).await.unwrap();
        tokio::time::sleep(Duration::from_millis(100)).await;
        let m = timeout(Duration::from_secs(2), pull.recv())
            .await
            .expect("message missing")
            .unwrap();
        assert_eq!(m.get(0).unwrap().as_ref(), b"m");
        let b = stalled_peer(port).await;
        f17a_finish("PULL", pull, End::Drop, a, Some(b)).await;
    }

    /// CONTROL (expected to pass today): the REP scenario without any
    /// stalled peer and without an abandoned recv().
    #[tokio::test(flavor = "multi_thread", worker_threads = 2)]
    async fn f17a_control_rep_without_stalled_peer_sees_eof() {
        for how in [End::Close, End::Drop] {
            let mut rep = RepSocket::new();
            let (_port, mut a) = bind_and_connect(&mut rep, "REQ").await;
            rep_exchange(&mut rep, &mut a).await;
            f17a_finish("REP control", rep, how, a, None).await;
        }
    }

    /// CONTROL (expected to pass today): a socket that does not read through
    /// the fair queue (PUSH), WITH a stalled handshake peer.
    #[tokio::test(flavor = "multi_thread", worker_threads = 2)]
    async fn f17a_control_push_with_stalled_handshake_peer_sees_eof() {
        for how in [End::Close, End::Drop] {
            let mut push = PushSocket::new();
            let (port, mut a) = bind_and_connect(&mut push, "PULL").await;
            push.send(ZmqMessage::from("m")).await.unwrap();
            assert_eq!(read_frame(&mut a).await.unwrap(), (0x00, b"m".to_vec()));
            let b = stalled_peer(port).await;
            f17a_finish("PUSH control", push, how, a, Some(b)).await;
        }
    }

    // ---------------------------------------------------------------------
    // F17b: reference cycle QueueInner -> stream -> I/O registration ->
    // StreamWaker -> Arc<QueueInner> after a recv() that was polled and
    // abandoned
    // ---------------------------------------------------------------------

    /// recv() polled once under a 50 ms timeout with nothing arriving, then
    /// the socket is ended; the established peer must see EOF. Before
    /// asserting, probes whether the peer is released as soon as it sends one
    /// byte (which fires and thereby drops the stored waker; printed only).
    async fn f17b_scenario<S: Socket + SocketRecv>(label: &str, mut sock: S, peer_type: &str, how: End) {
        let (_port, mut a) = bind_and_connect(&mut sock, peer_type).await;
        let r = timeout(Duration::from_millis(50), sock.recv()).await;
        assert!(r.is_err(), "nothing was sent, recv() should have timed out");
        end_socket(sock, how).await;
        let released = sees_eof(&mut a, Duration::from_secs(2)).await;
        eprintln!("F17b {label} ({how:?}): peer saw EOF within 2 s after an abandoned recv(): {released}");
        if !released {
            let _ = a.write_all(&[0x00]).await;
            let after = sees_eof(&mut a, Duration::from_secs(1)).await;
            eprintln!("F17b {label}: ... and after the peer sent one byte (fires the parked waker): released: {after}");
        }
        assert!(
            released,
            "{label}: recv() was polled once and abandoned; the socket is gone ({how:?}) but its peer saw no end-of-stream within 2 s"
        );
    }

    #[tokio::test(flavor = "multi_thread", worker_threads = 2)]
    async fn f17b_rep_drop_after_abandoned_recv_no_eof() {
        f17b_scenario("REP", RepSocket::new(), "REQ", End::Drop).await;
    }

    #[tokio::test(flavor = "multi_thread", worker_threads = 2)]
    async fn f17b_rep_close_after_abandoned_recv_no_eof() {
        f17b_scenario("REP", RepSocket::new(), "REQ", End::Close).await;
    }

    #[tokio::test(flavor = "multi_thread", worker_threads = 2)]
    async fn f17b_pull_drop_after_abandoned_recv_no_eof() {
        f17b_scenario("PULL", PullSocket::new(), "PUSH", End::Drop).await;
    }

    #[tokio::test(flavor = "multi_thread", worker_threads = 2)]
    async fn f17b_sub_drop_after_abandoned_recv_no_eof() {
        f17b_scenario("SUB", SubSocket::new(), "PUB", End::Drop).await;
    }

    #[tokio::test(flavor = "multi_thread", worker_threads = 2)]
    async fn f17b_dealer_drop_after_abandoned_recv_no_eof() {
        f17b_scenario("DEALER", DealerSocket::new(), "ROUTER", End::Drop).await;
    }

    /// CONTROL (expected to pass today): REQ does not read through the fair
    /// queue. send(), a recv() that is polled and abandoned, then drop/close.
    #[tokio::test(flavor = "multi_thread", worker_threads = 2)]
    async fn f17b_control_req_after_abandoned_recv_sees_eof() {
        for how in [End::Close, End::Drop] {
            let mut req = ReqSocket::new();
            let (_port, mut a) = bind_and_connect(&mut req, "REP").await;
            req.send(ZmqMessage::from("x")).await.unwrap();
            let r = timeout(Duration::from_millis(50), req.recv()).await;
            assert!(r.is_err());
            end_socket(req, how).await;
            let released = sees_eof(&mut a, Duration::from_secs(2)).await;
            eprintln!("F17b REQ control ({how:?}): peer saw EOF within 2 s: {released}");
            assert!(released, "REQ control ({how:?}): peer saw no end-of-stream");
        }
    }
}
