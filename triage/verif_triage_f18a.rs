// Demonstration of F18a (fails on c346de5, passes on d7fab52). Needs a host name that resolves to two loopback addresses:
// the run recorded in DESIGN.md 5.1 used `127.0.0.1 verif-dual` and `::1 verif-dual` in /etc/hosts (removed afterwards).
// Output on c346de5: first bind -> tcp://verif-dual:38465 (v6 reachable); second bind -> Ok(tcp://verif-dual:38465);
// afterwards v4 reachable, v6 not: "the listener of the first successful bind stopped accepting without being unbound".
// Triage of candidate F18a: binding the same domain-named TCP endpoint twice.
use std::time::Duration;
use zeromq::prelude::*;

fn free_port() -> u16 {
    let l = std::net::TcpListener::bind("127.0.0.1:0").unwrap();
    l.local_addr().unwrap().port()
}

#[tokio::test]
async fn second_bind_of_same_domain_endpoint_must_not_silently_stop_the_first_listener() {
    let port = free_port();
    let ep = format!("tcp://verif-dual:{}", port);
    let mut rep = zeromq::RepSocket::new();
    let first = rep.bind(&ep).await.expect("first bind");
    // where does the first listener actually listen?
    let v4 = tokio::net::TcpStream::connect(("127.0.0.1", port)).await.is_ok();
    let v6 = tokio::net::TcpStream::connect(("::1", port)).await.is_ok();
    eprintln!("first bind -> {} (v4 reachable {}, v6 reachable {})", first, v4, v6);
    let second = rep.bind(&ep).await;
    eprintln!("second bind -> {:?}", second.as_ref().map(|e| e.to_string()));
    tokio::time::sleep(Duration::from_millis(200)).await;
    let v4_after = tokio::net::TcpStream::connect(("127.0.0.1", port)).await.is_ok();
    let v6_after = tokio::net::TcpStream::connect(("::1", port)).await.is_ok();
    eprintln!("after second bind: v4 reachable {}, v6 reachable {}", v4_after, v6_after);
    if second.is_ok() {
        // both binds succeeded: both listeners must be alive and both must be in the bind set
        assert!(
            (!v4 || v4_after) && (!v6 || v6_after),
            "the listener of the first successful bind stopped accepting without being unbound"
        );
    } else {
        assert!((!v4 || v4_after) && (!v6 || v6_after), "a failed bind changed an existing listener");
    }
}
